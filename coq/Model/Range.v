(* C14 — executable model of CiscoRange(text, result_type=int)  (ciscoconfparse2/ccp_util.py).
   Definitions only.  State = the `data` attribute (a Python list of ints) : list Z.

   Modelled line by line:
     CiscoRange.__init__      (text == "" -> empty; ",," in text -> InvalidCiscoRange; parse_integers)
     parse_integers           (split(","), "-" in part, split("-") of length 2, int(x.strip()),
                               digit filter on the upper bound, range(b, e+1), sorted(set(...)))
     __len__, __iter__, __contains__ (UserList: `item in self.data`)
     as_list                  (copy that drops "" members, self.data = copy, sorted(set(data)))
     as_set                   (set(data); the harness canonicalises a set by sorting it)
     as_compressed_str        (as_list, sorted(set()), the run-detection loop, the join that omits the comma
                               next to "-")
     append                   (duplicate check, copy, append, attribute_sort -> sorted; errors inside are swallowed)
     remove                   (empty -> UnboundLocalError; comprehension filter; shorter -> assign, else raise)
   Python's int(): Lib/PyStr.py_int (optional blanks, optional sign, ASCII digits). *)
From Coq Require Import NArith ZArith List Bool.
Require Import CCP.Lib.PyStr CCP.Lib.Res CCP.Lib.C14Aux.
Import ListNotations.
Open Scope Z_scope.

Definition comma : char := 44%N.
Definition hyphen : char := 45%N.

(* range(b, e+1) *)
Fixpoint zrange_n (b : Z) (n : nat) : list Z :=
  match n with O => [] | S k => b :: zrange_n (b + 1) k end.
Definition zrange (b e : Z) : list Z := zrange_n b (Z.to_nat (e + 1 - b)).

(* sorted(l) *)
Definition py_sorted (l : list Z) : list Z := ZSort.sort l.

(* drop adjacent duplicates *)
Fixpoint dedup (l : list Z) : list Z :=
  match l with
  | [] => []
  | x :: r => match r with
              | [] => [x]
              | y :: _ => if x =? y then dedup r else x :: dedup r
              end
  end.

(* sorted(set(l)) *)
Definition sorted_set (l : list Z) : list Z := dedup (py_sorted l).

(* `"-" in part` *)
Definition has_char (c : char) (s : str) : bool := existsb (N.eqb c) s.

Definition int_or_raise (s : str) : result Z :=
  match py_int s with Some z => Ok z | None => Raise E_ValueError end.

(* one element of text.split(",") -> the integers it contributes *)
Definition parse_part (p : str) : result (list Z) :=
  if has_char hyphen p then
    match split_on hyphen p with
    | [a; b] =>
        bind (int_or_raise (strip a)) (fun begin_ordinal =>
        bind (int_or_raise (strip b)) (fun _ =>
        bind (int_or_raise (filter is_digit (strip b))) (fun end_ordinal =>
        Ok (zrange begin_ordinal end_ordinal))))
    | _ => Raise E_Other            (* InvalidCiscoRange: more than one "-" *)
    end
  else bind (int_or_raise p) (fun b => Ok [b]).

Fixpoint parse_parts (ps : list str) : result (list Z) :=
  match ps with
  | [] => Ok []
  | p :: r => bind (parse_part p) (fun a => bind (parse_parts r) (fun b => Ok (a ++ b)))
  end.

Definition parse_integers (text : str) : result (list Z) :=
  bind (parse_parts (split_on comma text)) (fun l => Ok (sorted_set l)).

(* CiscoRange(text, result_type=int).data *)
Definition ctor (text : str) : result (list Z) :=
  match text with
  | [] => Ok []
  | _ => if contains [comma; comma] text then Raise E_Other else parse_integers text
  end.

(* ---------------------------------------------------------------- accessors: state -> state * out *)
Inductive tok := TI (z : Z) | TDash.

(* the loop `for ii in range(len(input_str))` from ii = 1; prev = input_str[ii-1];
   last_dash = (range_list[-1] == "-") *)
Fixpoint walk (prev : Z) (l : list Z) (last_dash : bool) : list tok :=
  match l with
  | cur :: r =>
      match r with
      | nxt :: _ =>
          if (cur - prev =? 1) && (nxt - cur =? 1)
          then (if last_dash then walk cur r true else TDash :: walk cur r true)
          else TI cur :: walk cur r false
      | [] => []                      (* ii + 1 < len fails for the last index *)
      end
  | [] => []
  end.

Definition range_tokens (l : list Z) : list tok :=
  match l with
  | [] => []
  | x0 :: r => TI x0 :: walk x0 r false ++ (match r with [] => [] | _ => [TI (last r x0)] end)
  end.

Definition tok_str (t : tok) : str := match t with TI z => render_Z z | TDash => [hyphen] end.
Definition same_type (a b : tok) : bool :=
  match a, b with TI _, TI _ => true | TDash, TDash => true | _, _ => false end.
Fixpoint join_tokens (prev : tok) (l : list tok) : str :=
  match l with
  | [] => []
  | t :: r => (if same_type prev t then [comma] else []) ++ tok_str t ++ join_tokens t r
  end.
Definition tokens_str (l : list tok) : str :=
  match l with [] => [] | t :: r => tok_str t ++ join_tokens t r end.

(* the copy loop of as_list: `if isinstance(ii, str) and ii == "": continue` never fires for ints *)
Definition copy_members (st : list Z) : list Z := filter (fun _ => true) st.

Definition as_list (st : list Z) : list Z * list Z :=
  let yy := copy_members st in (yy, sorted_set yy).

Definition as_set (st : list Z) : list Z * list Z := (st, sorted_set st).

Definition as_compressed_str (st : list Z) : list Z * str :=
  match st with
  | [] => (st, [])
  | _ => let '(st1, lst) := as_list st in
         (st1, tokens_str (range_tokens (sorted_set lst)))
  end.

Definition mem (v : Z) (st : list Z) : bool := existsb (Z.eqb v) st.

(* append(val) with val an int: Some new state, or None = raised (DuplicateMember) *)
Definition append (v : Z) (st : list Z) : option (list Z) :=
  if mem v st then None else Some (py_sorted (st ++ [v])).

(* remove(arg) with arg an int: Some new state, or None = raised *)
Definition remove (v : Z) (st : list Z) : option (list Z) :=
  match st with
  | [] => None
  | _ => let new_list := filter (fun x => negb (x =? v)) st in
         if (length new_list <? length st)%nat then Some new_list else None
  end.

Inductive op := OLen | OIter | OList | OSet | OStr | OContains (v : Z) | OAppend (v : Z) | ORemove (v : Z).
Inductive out := VInt (n : Z) | VList (l : list Z) | VStr (s : str) | VBool (b : bool) | VDone | VRaised.

Definition is_reader (o : op) : bool :=
  match o with OAppend _ | ORemove _ => false | _ => true end.

Definition step (st : list Z) (o : op) : list Z * out :=
  match o with
  | OLen => (st, VInt (Z.of_nat (length st)))
  | OIter => (st, VList st)
  | OList => let '(s, l) := as_list st in (s, VList l)
  | OSet => let '(s, l) := as_set st in (s, VList l)
  | OStr => let '(s, t) := as_compressed_str st in (s, VStr t)
  | OContains v => (st, VBool (mem v st))
  | OAppend v => match append v st with Some s => (s, VDone) | None => (st, VRaised) end
  | ORemove v => match remove v st with Some s => (s, VDone) | None => (st, VRaised) end
  end.

(* run a sequence of calls: final state and the trace (state after the call, result of the call) *)
Fixpoint run_ops (st : list Z) (ops : list op) : list (list Z * out) :=
  match ops with
  | [] => []
  | o :: r => let '(s, v) := step st o in (s, v) :: run_ops s r
  end.
Definition final_state (st : list Z) (ops : list op) : list Z := fold_left (fun s o => fst (step s o)) ops st.

(* run-length view of a list: maximal segments in which each element is its predecessor + 1 *)
Fixpoint runs_aux (a b : Z) (l : list Z) : list (Z * Z) :=
  match l with
  | [] => [(a, b)]
  | x :: r => if x =? b + 1 then runs_aux a x r else (a, b) :: runs_aux x x r
  end.
Definition runs (l : list Z) : list (Z * Z) :=
  match l with [] => [] | x :: r => runs_aux x x r end.
