(* C10 — executable model of ciscoconfparse2.Diff (ciscoconfparse2/ciscoconfparse2.py) and of the
   option-neutral core of hier_config that it wraps:
     Diff.__init__        : input normalisation (None -> "", list/tuple -> os.linesep.join, str as is,
                            one-line str naming a file -> file content)                       [norm_form]
     HConfig.load_from_string / _load_from_string_lines : str.splitlines, per-line whitespace
                            normalisation, indentation stack (current_section / most_recent_item),
                            add_child merging a duplicate sibling into the existing one       [load]
     HConfigBase._config_to_get_to (_left: negate self children absent from the target;
                            _right: recurse into common children, deep-copy absent ones)      [ctgt]
     all_children_sorted + cisco_style_text : depth-first, two spaces per depth                [render]
     Diff.get_diff = remediation (running=old -> generated=new); get_rollback = the other way.
   NOT modelled (option driven; the harness checks at run time that no option rule applies to a
   generated case): banners, per_line_sub/full_text_sub, indent_adjust, ACL sequence numbering,
   idempotent commands, sectional overwrite/exiting, negation_negate_with/default_when, ordering
   weights, parent_allows_duplicate_child; and the merging done by delta.add_child, which is
   unreachable when sibling texts are unique (guaranteed by [load]) and no text starts with "no ".
   Definitions only; proofs are in Proofs/C10Proofs.v. *)
From Coq Require Import NArith ZArith List Bool Arith.
Require Import CCP.Lib.PyStr.
Import ListNotations.

Inductive tree := Node (t : str) (kids : list tree).
Definition forest := list tree.
Definition ttext (n : tree) : str := match n with Node t _ => t end.
Definition tkids (n : tree) : forest := match n with Node _ k => k end.
Definition path := list str.

(* ---------------------------------------------------------------- str.splitlines() *)
Definition is_linebreak (c : char) : bool :=
  match c with 10 | 11 | 12 | 13 | 28 | 29 | 30 | 133 | 8232 | 8233 => true | _ => false end%N.

Fixpoint splitlines_aux (cur : str) (s : str) : list str :=
  match s with
  | [] => match cur with [] => [] | _ => [rev cur] end
  | c :: r =>
      if N.eqb c 13 then
        match r with
        | 10%N :: r' => rev cur :: splitlines_aux [] r'
        | _ => rev cur :: splitlines_aux [] r
        end
      else if is_linebreak c then rev cur :: splitlines_aux [] r
      else splitlines_aux (c :: cur) r
  end.
Definition splitlines (s : str) : list str := splitlines_aux [] s.

(* ---------------------------------------------------------------- Diff.__init__ input forms *)
Inductive form :=
| FNone                      (* None *)
| FStr (s : str)             (* a str that is not a one-line name of an existing file *)
| FList (ls : list str)      (* list of lines *)
| FTuple (ls : list str)     (* tuple of lines *)
| FFile (content : str).     (* a one-line str naming a file with this content *)

Definition linesep : str := [10%N].     (* os.linesep on the platform under test *)
Definition norm_form (f : form) : str :=
  match f with
  | FNone => []
  | FStr s => s
  | FList ls => join linesep ls
  | FTuple ls => join linesep ls
  | FFile c => c
  end.

(* ---------------------------------------------------------------- the loader *)
(* one physical line -> None (skipped) | Some (indent, text):
     actual_indent = len(line) - len(line.lstrip()); text = " ".join(line.split()) *)
Definition sp : char := 32%N.
Definition norm_line (l : str) : option (Z * str) :=
  match split_ws l with
  | [] => None
  | ws => Some (Z.of_nat (count_leading is_space l), join [sp] ws)
  end.

Definition has_text (t : str) (f : forest) : bool := existsb (fun n => str_eqb (ttext n) t) f.
Fixpoint find_child (t : str) (f : forest) : option tree :=
  match f with
  | [] => None
  | n :: r => if str_eqb (ttext n) t then Some n else find_child t r
  end.

(* HConfigBase.add_child without duplicates allowed: an existing child with this text is returned *)
Definition add_child (t : str) (f : forest) : forest := if has_text t f then f else f ++ [Node t []].

Fixpoint upd_first (p : str) (g : forest -> forest) (f : forest) : forest :=
  match f with
  | [] => []
  | Node t k :: r => if str_eqb t p then Node t (g k) :: r else Node t k :: upd_first p g r
  end.
(* add a child with text t to the node reached from the root by the texts in [pth] *)
Fixpoint add_at (pth : path) (t : str) (f : forest) : forest :=
  match pth with
  | [] => add_child t f
  | p :: ps => upd_first p (add_at ps t) f
  end.

(* a chain is a node together with its ancestors, innermost first, each with the
   real_indent_level it had when it last was most_recent_item; [] is the root (level -1) *)
Definition chain := list (str * Z).
Definition top_indent (c : chain) : Z := match c with [] => (-1)%Z | (_, i) :: _ => i end.
Fixpoint walk_up (ind : Z) (c : chain) : chain :=
  match c with
  | [] => []
  | (_, i) :: r => if (ind <=? i)%Z then walk_up ind r else c
  end.

Definition lstate := (forest * chain * chain)%type.    (* tree, current_section, most_recent_item *)
Definition load_step (st : lstate) (l : str) : lstate :=
  match norm_line l with
  | None => st
  | Some (ind, t) =>
      let '(f, cs, mr) := st in
      let cs1 := walk_up ind cs in
      let cs2 := if (top_indent mr <? ind)%Z then mr else cs1 in
      (add_at (rev (map fst cs2)) t f, cs2, (t, ind) :: cs2)
  end.
Definition load_lines (ls : list str) : forest := fst (fst (fold_left load_step ls ([], [], []))).
Definition load (f : form) : forest := load_lines (splitlines (norm_form f)).

(* ---------------------------------------------------------------- config_to_get_to *)
Definition neg_prefix : str := [110; 111; 32]%N.           (* "no " *)
Definition is_neg (t : str) : bool := starts_with neg_prefix t.
Definition swap_neg (t : str) : str := if is_neg t then skipn 3 t else neg_prefix ++ t.

(* _config_to_get_to_left *)
Definition lefts (self target : forest) : forest :=
  map (fun c => Node (swap_neg (ttext c)) [])
      (filter (fun c => negb (has_text (ttext c) target)) self).

(* _config_to_get_to_right, one target child *)
Fixpoint right_node (self : forest) (tc : tree) {struct tc} : forest :=
  match tc with
  | Node t tk =>
      match find_child t self with
      | None => [tc]
      | Some sc =>
          match lefts (tkids sc) tk ++ flat_map (right_node (tkids sc)) tk with
          | [] => []
          | sub => [Node t sub]
          end
      end
  end.
Definition ctgt (self target : forest) : forest :=
  lefts self target ++ flat_map (right_node self) target.

(* ---------------------------------------------------------------- rendering *)
Fixpoint render_node (d : nat) (n : tree) {struct n} : list str :=
  match n with Node t k => (repeat sp (2 * d) ++ t) :: flat_map (render_node (S d)) k end.
Definition render (f : forest) : list str := flat_map (render_node 0) f.

Definition get_diff (old new : form) : list str := render (ctgt (load old) (load new)).
Definition get_rollback (old new : form) : list str := render (ctgt (load new) (load old)).

(* ---------------------------------------------------------------- reading a diff back *)
Fixpoint paths_node (n : tree) {struct n} : list path :=
  match n with Node t k => [t] :: map (cons t) (flat_map paths_node k) end.
Definition paths (f : forest) : list path := flat_map paths_node f.

Definition is_sp (c : char) : bool := N.eqb c sp.
(* a printed line at depth d is a command under the d most recent enclosing lines *)
Definition parse_step (st : path * list path) (l : str) : path * list path :=
  let n := count_leading is_sp l in
  let stk := firstn (n / 2) (fst st) ++ [skipn n l] in
  (stk, snd st ++ [stk]).
Definition parse_out (ls : list str) : list path := snd (fold_left parse_step ls ([], [])).

(* ---------------------------------------------------------------- applying commands *)
Fixpoint path_eqb (a b : path) : bool :=
  match a, b with
  | [], [] => true
  | x :: r, y :: s => str_eqb x y && path_eqb r s
  | _, _ => false
  end.
Fixpoint is_prefix (a b : path) : bool :=
  match a, b with
  | [], _ => true
  | x :: r, y :: s => str_eqb x y && is_prefix r s
  | _ :: _, [] => false
  end.
Definition mem_path (p : path) (s : list path) : bool := existsb (path_eqb p) s.

(* the line a removal command names: ancestors ++ [last without "no "]; None for an addition *)
Definition removal_target (c : path) : option path :=
  match rev c with
  | [] => None
  | l :: pre => if is_neg l then Some (rev pre ++ [skipn 3 l]) else None
  end.
Definition apply1 (s : list path) (c : path) : list path :=
  match removal_target c with
  | Some tgt => filter (fun p => negb (is_prefix tgt p)) s
  | None => s ++ [c]
  end.
Definition apply_cmds (cmds : list path) (s : list path) : list path := fold_left apply1 cmds s.

Definition subset_b (a b : list path) : bool := forallb (fun p => mem_path p b) a.
Definition seteq_b (a b : list path) : bool := subset_b a b && subset_b b a.

(* the property's clauses, decidable, for a list of commands [cmds] from [o] to [n] *)
Definition strict_prefix (a b : path) : bool := is_prefix a b && negb (path_eqb a b).
Definition clause_apply (o n cmds : list path) : bool := seteq_b (apply_cmds cmds o) n.
Definition clause_adds (o n cmds : list path) : bool :=
  forallb (fun c => match removal_target c with
                    | Some _ => true
                    | None => mem_path c n &&
                              (negb (mem_path c o) || existsb (fun c' => strict_prefix c c') cmds)
                    end) cmds.
Definition clause_removes (o n cmds : list path) : bool :=
  forallb (fun c => match removal_target c with
                    | Some tgt => mem_path tgt o && negb (mem_path tgt n)
                    | None => true
                    end) cmds.
Definition spec_ok (o n cmds : list path) : bool :=
  clause_apply o n cmds && clause_adds o n cmds && clause_removes o n cmds.
