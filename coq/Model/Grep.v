(* C18 — executable model of the `ccp ipgrep` / `ccp macgrep` loops (ciscoconfparse2/cli_script.py):
   option defaults of CliApplication for ipgrep, ipgrep_command, find_ip46_addr_matches,
   find_ip46_line_matches, the two exclusion checks, macgrep_command, find_maceui_addr_matches,
   find_maceui_line_matches, MACEUISearch.search_all_formats.

   Address parsing, address rendering and the regex engine are ORACLES carried in the input:
   every word holds what IPv4Obj(word) / IPv6Obj(word) return (numeric address, prefix length) together
   with the three renderings of that value, every MAC word holds whether it is a valid MAC/EUI-64 and,
   per requested regex, whether re.search matches each of the four spellings.  Membership is
   contains_ref of Model/IPRef.v (proved equal to the source's __contains__ by C12).
   Definitions only; proofs are in Proofs/C18Proofs.v. *)
From Coq Require Import ZArith NArith List Bool.
Require Import CCP.Lib.PyStr CCP.Lib.Res CCP.Model.IPRef.
Import ListNotations.

Inductive fam := F4 | F6.
Definition famW (f : fam) : Z := match f with F4 => 32%Z | F6 => 128%Z end.

(* one requested subnet: IPv4Obj(s) / IPv6Obj(s) of a comma-separated piece of --subnets *)
Record subnet := mk_subnet { s_fam : fam; s_obj : ipo }.

(* the oracle answer for one word in one family *)
Record parsed := mk_parsed {
  p_obj : ipo;          (* as_decimal, prefixlen *)
  p_ip : str;           (* str(addr.ip) *)
  p_cidr : str;         (* addr.as_cidr_addr *)
  p_net : str }.        (* addr.as_cidr_net *)

Record word := mk_word { w_p4 : option parsed; w_p6 : option parsed }.

Record opts := mk_opts {
  o_unique : bool; o_line : bool; o_cidr : bool; o_nets : bool; o_exhosts : bool; o_exnets : bool }.

Definition parse_for (f : fam) (w : word) : option parsed :=
  match f with F4 => w_p4 w | F6 => w_p6 w end.

(* try: addr = IPvXObj(word) except: continue ; if addr in subnet *)
Definition matches (s : subnet) (w : word) : option parsed :=
  match parse_for (s_fam s) w with
  | Some p => if contains_ref (famW (s_fam s)) (s_obj s) (p_obj p) then Some p else None
  | None => None
  end.

(* the first subnet (in iteration order) that contains the word *)
Fixpoint first_match (subs : list subnet) (w : word) : option (fam * parsed) :=
  match subs with
  | [] => None
  | s :: r => match matches s w with Some p => Some (s_fam s, p) | None => first_match r w end
  end.

Definition render (o : opts) (p : parsed) : str :=
  if o_nets o then p_net p else if o_cidr o then p_cidr p else p_ip p.

(* check_ip46_host_exclusion_args *)
Definition host_excl (o : opts) (f : fam) (p : parsed) : bool :=
  o_exhosts o &&
  (Z.eqb (plen (p_obj p)) (famW f) || (negb (o_nets o) && negb (str_eqb (p_net p) (p_cidr p)))).
(* check_ip46_net_exclusion_args (exclude_networks has no command-line flag: always False from the CLI) *)
Definition net_excl (o : opts) (f : fam) (p : parsed) : bool :=
  o_exnets o && negb (Z.eqb (plen (p_obj p)) (famW f)).
Definition excluded (o : opts) (f : fam) (p : parsed) : bool := net_excl o f p || host_excl o f p.

Definition mem_str (x : str) (l : list str) : bool := existsb (str_eqb x) l.

(* find_ip46_addr_matches: one iteration of the outer loop; retval grows at the end *)
Definition word_step (o : opts) (subs : list subnet) (acc : list str) (w : word) : list str :=
  match first_match subs w with
  | None => acc
  | Some (f, p) =>
      if o_unique o then
        if mem_str (render o p) acc then acc
        else if excluded o f p then acc else acc ++ [render o p]
      else if excluded o f p then acc else acc ++ [render o p]
  end.
Definition ipgrep_words (o : opts) (subs : list subnet) (ws : list word) : list str :=
  fold_left (word_step o subs) ws [].

(* find_ip46_line_matches: state (append_line, exclude_line) over the (word, subnet) pairs of a line *)
Record line := mk_line { l_text : str; l_words : list word }.

Definition pair_step (o : opts) (w : word) (st : bool * bool) (s : subnet) : bool * bool :=
  let '(app, exc) := st in
  match parse_for (s_fam s) w with
  | None => st                                   (* except: continue *)
  | Some p =>
      if exc then st
      else if contains_ref (famW (s_fam s)) (s_obj s) (p_obj p) then
        if net_excl o (s_fam s) p then (false, true)
        else if host_excl o (s_fam s) p then (false, true)
        else (true, exc)
      else st
  end.
Definition line_state (o : opts) (subs : list subnet) (ws : list word) : bool * bool :=
  fold_left (fun st w => fold_left (pair_step o w) subs st) ws (false, false).
Definition ipgrep_lines (o : opts) (subs : list subnet) (ls : list line) : list str :=
  map l_text (filter (fun l => fst (line_state o subs (l_words l))) ls).

(* CliApplication.__init__ for ipgrep: --show-networks implies --show-cidr; -4/-6 replace a missing -s;
   None = parser.error / ValueError (nothing is printed) *)
Definition net0 (f : fam) : subnet := mk_subnet f {| addr := 0; plen := 0 |}.
Definition effective_subnets (sarg : option (list (option subnet))) (v4 v6 : bool) : option (list subnet) :=
  match sarg with
  | None => match v4, v6 with
            | true, false => Some [net0 F4]
            | false, true => Some [net0 F6]
            | true, true => Some [net0 F4; net0 F6]
            | false, false => None                      (* "The -s, -4 or -6 argument is required" *)
            end
  | Some l =>
      if v4 || v6 then None                             (* "--ipv4 and --ipv6 cannot be used with --subnets" *)
      else fold_right (fun x acc => match x, acc with Some s, Some r => Some (s :: r) | _, _ => None end)
                      (Some []) l                       (* an unparsable piece: ValueError *)
  end.

Definition norm_opts (o : opts) : opts :=
  mk_opts (o_unique o) (o_line o) (o_cidr o || o_nets o) (o_nets o) (o_exhosts o) (o_exnets o).

Inductive input := In_words (ws : list word) | In_lines (ls : list line).

(* the whole `ccp ipgrep` run: the printed lines, or None when the command ends in an error.
   The harness hands over In_words (re.split(word_delimiter, text)) when --line is absent and In_lines
   (text.splitlines(), each re.split) when it is present. *)
Definition ipgrep (o0 : opts) (sarg : option (list (option subnet))) (v4 v6 : bool) (inp : input) : option (list str) :=
  let o := norm_opts o0 in
  match effective_subnets sarg v4 v6 with
  | None => None
  | Some subs =>
      if o_line o && o_unique o then None               (* argparse: mutually exclusive *)
      else match inp with
           | In_words ws => if o_line o then None else Some (ipgrep_words o subs ws)
           | In_lines ls => if negb (o_line o) then None
                            else if o_cidr o || o_nets o then None   (* "not supported with --line" *)
                            else Some (ipgrep_lines o subs ls)
           end
  end.

(* ------------------------------------------------------------------ macgrep *)
(* per regex: re.search(rgx, spelling, re.I) for dash, colon, cisco, plain *)
Record mword := mk_mword { m_text : str; m_valid : bool; m_hits : list (bool * bool * bool * bool) }.

Definition hit4 (h : bool * bool * bool * bool) : bool := let '(a, b, c, d) := h in a || b || c || d.
(* MACEUISearch(word).mac_retval is not None and search_all_formats(...) *)
Definition mac_match (w : mword) : bool := m_valid w && existsb hit4 (m_hits w).

Definition mword_step (unique : bool) (acc : list str) (w : mword) : list str :=
  if mac_match w then
    if unique then (if mem_str (m_text w) acc then acc else acc ++ [m_text w]) else acc ++ [m_text w]
  else acc.
Definition macgrep_words (unique : bool) (ws : list mword) : list str := fold_left (mword_step unique) ws [].

Record mline := mk_mline { ml_text : str; ml_words : list mword }.
(* the line is appended at its first matching word, later words are skipped *)
Definition mline_hit (ws : list mword) : bool :=
  fst (fold_left (fun (st : bool * unit) w => if fst st then st else (mac_match w, tt)) ws (false, tt)).
Definition macgrep_lines (ls : list mline) : list str :=
  map ml_text (filter (fun l => mline_hit (ml_words l)) ls).

Inductive minput := Min_words (ws : list mword) | Min_lines (ls : list mline).
Definition macgrep (unique line : bool) (inp : minput) : option (list str) :=
  if line && unique then None
  else match inp with
       | Min_words ws => if line then None else Some (macgrep_words unique ws)
       | Min_lines ls => if line then Some (macgrep_lines ls) else None
       end.
