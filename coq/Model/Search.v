(* C04 — executable model of the search API of CiscoConfParse / BaseCfgLine.
   Definitions only (no proofs).  The forest (children lists, parent indices, truthiness of a line
   object) and the regex engine (truth bits per mode / regex slot / line) are PARAMETERS: every
   function below works for an arbitrary forest and an arbitrary oracle.

   Modelled code (ciscoconfparse2/ciscoconfparse2.py, ciscoconfparse2/ccp_abc.py):
     _find_line_OBJ, find_objects, _find_child_object_branches, find_object_branches,
     find_parent_objects, find_parent_objects_wo_child, find_child_objects,
     CiscoConfParse.re_search_children, BaseCfgLine.all_children / re_search /
     re_search_children / has_child_with.                                                     *)
From Coq Require Import List Arith Bool.
Import ListNotations.

Definition elt := option nat.        (* an element of a branch: a line number or None *)

(* regex rewriting flags -> "mode" of the oracle: 4*exactmatch + 2*ignore_ws + escape_chars *)
Definition mode_of (ex ws esc : bool) : nat :=
  (if ex then 4 else 0) + (if ws then 2 else 0) + (if esc then 1 else 0).

(* sorted(): insertion sort on line numbers (objects compare by linenum) *)
Fixpoint insert (x : nat) (l : list nat) : list nat :=
  match l with
  | [] => [x]
  | y :: t => if x <=? y then x :: l else y :: insert x t
  end.
Fixpoint isort (l : list nat) : list nat :=
  match l with [] => [] | x :: t => insert x (isort t) end.

(* sorted(set(l)) *)
Definition sort_set (l : list nat) : list nat := isort (nodup Nat.eq_dec l).

Definition is_nil {A} (l : list A) : bool := match l with [] => true | _ => false end.
Definition somes (l : list elt) : list nat :=
  flat_map (fun e => match e with Some x => [x] | None => [] end) l.

Section Search.
(* ---- the parsed tree, as dumped from the real objects ---- *)
Variable kids : list (list nat).            (* kids[p] = line numbers of p.children, in list order *)
Variable par : nat -> nat.                  (* par l = l.parent.linenum *)
Variable tru : nat -> bool.                 (* bool(obj): len(obj.text) > 0 (BaseCfgLine.__len__) *)
(* ---- the regex oracle ---- *)
Variable rxm : nat -> nat -> nat -> bool.   (* rxm mode r l : regex r, rewritten per mode, matches line l *)
Variable nometa : nat -> nat -> bool.       (* re.escape(regex) == regex, for the rewritten string *)
Variable lit : nat -> nat -> nat -> bool.   (* the rewritten regex string occurs literally in the text *)
Variable ne : nat -> nat -> nat -> bool.    (* the leftmost match is a non-empty string *)

Definition nlines : nat := length kids.
Definition children (p : nat) : list nat := nth p kids [].
Definition all_lines : list nat := seq 0 nlines.

(* BaseCfgLine.all_children: children + their all_children, sorted() at every level.
   Explicit fuel = number of lines (enough whenever children have larger line numbers). *)
Fixpoint desc (fuel p : nat) : list nat :=
  match fuel with
  | 0 => []
  | S f => isort (flat_map (fun c => c :: desc f c) (children p))
  end.
Definition all_children (p : nat) : list nat := desc nlines p.

(* ---- _find_line_OBJ / find_objects ---- *)
Definition find_line (md r : nat) : list nat := filter (rxm md r) all_lines.

Definition find_objects (r : nat) (ex ws esc rv : bool) : list nat :=
  let l := find_line (mode_of ex ws esc) r in
  if rv then rev l else l.

(* ---- _find_child_object_branches ---- *)
Definition next_kids (parent : elt) (r : nat) : list elt :=
  let cands := match parent with
               | None => find_line 0 r          (* _find_line_OBJ(childspec, exactmatch=False) *)
               | Some p => children p
               end in
  match filter (rxm 0 r) cands with              (* the re.search() list comprehension *)
  | [] => [None]
  | l => map Some l
  end.

Definition last_of (b : list elt) : elt := last b None.

(* one round of the growth loop of find_object_branches (idx > 0) *)
Definition grow1 (r : nat) (branches : list (list elt)) : list (list elt) :=
  flat_map (fun b => match last_of b with
                     | Some p => map (fun k => b ++ [k]) (next_kids (Some p) r)
                     | None => [b ++ [None]]
                     end) branches.

Definition branches_raw (rs : list nat) : list (list elt) :=
  match rs with
  | [] => []
  | r0 :: rs' => fold_left (fun bs r => grow1 r bs) rs' (map (fun k => [k]) (next_kids None r0))
  end.

(* all(branch): every element is not None and has a non-empty text *)
Definition elt_truthy (e : elt) : bool := match e with Some l => tru l | None => false end.

(* find_object_branches(branchspec, empty_branches, reverse), for len(branchspec) >= 2
   (shorter specs raise ValueError by design and are not part of the property) *)
Definition find_object_branches (rs : list nat) (empty rv : bool) : list (list elt) :=
  let bs := branches_raw rs in
  let bs := if empty then bs else filter (forallb elt_truthy) bs in
  if rv then rev bs else bs.

(* ---- BaseCfgLine.re_search (truthiness), re_search_children, has_child_with ---- *)
Definition re_search (md r l : nat) : bool :=
  (nometa md r && lit md r l) || rxm md r l.

Definition obj_re_search_children (md r : nat) (recurse : bool) (p : nat) : list nat :=
  filter (re_search md r) (if recurse then all_children p else children p).

Definition has_child_with (r : nat) (allc : bool) (p : nat) : bool :=
  negb (is_nil (filter (re_search 0 r) (if allc then all_children p else children p))).

(* ---- find_parent_objects ---- *)
Definition find_parent_objects_list (rs : list nat) : list nat :=
  match rs with
  | [] => []                                     (* raises ValueError; not part of the property *)
  | [r] => find_objects r false false false false
  | _ => sort_set (somes (map (fun b => hd None b) (find_object_branches rs false false)))
  end.

Definition find_parent_objects_2 (p c : nat) (ws recurse esc rv : bool) : list nat :=
  let md := mode_of false ws esc in
  filter (fun x => negb (is_nil (obj_re_search_children md c recurse x)))
         (find_objects p false ws esc rv).

(* ---- find_parent_objects_wo_child (two-argument form) ---- *)
Definition find_parent_objects_wo_child_2 (p c : nat) (ws recurse esc rv : bool) : list nat :=
  let md := mode_of false ws esc in
  filter (fun x => is_nil (obj_re_search_children md c recurse x))
         (find_objects p false ws esc rv).

(* list form AS THE PROPERTY DEMANDS IT ("the list and two-argument calling forms agree") *)
Definition find_parent_objects_wo_child_list (p c : nat) : list nat :=
  find_parent_objects_wo_child_2 p c false false false false.

(* list form AS THE CODE IS (finding F03): after `parentspec = parentspec[0]`, `childspec =
   parentspec[1]` is the second CHARACTER of the parent regex; c2 = the slot of that one-character
   regex, None when the parent regex has fewer than two characters (IndexError). *)
Definition find_parent_objects_wo_child_list_impl (p : nat) (c2 : option nat) : option (list nat) :=
  match c2 with
  | None => None
  | Some c' => Some (find_parent_objects_wo_child_2 p c' false false false false)
  end.

(* ---- find_child_objects ---- *)
Definition find_child_objects_list (rs : list nat) : list nat :=
  match rs with
  | [] => []
  | [r] => find_objects r false false false false
  | _ => sort_set (somes (map last_of (find_object_branches rs false false)))
  end.

(* child.re_match(rf"({childspec})", default=False): truthy iff it matches a NON-EMPTY string *)
Definition child_hit (md c l : nat) : bool := rxm md c l && ne md c l.

Definition find_child_objects_2 (p c : nat) (ws recurse esc rv : bool) : list nat :=
  let md := mode_of false ws esc in
  sort_set (flat_map (fun x => filter (child_hit md c) (if recurse then all_children x else children x))
                     (find_objects p false ws esc rv)).

(* ---- CiscoConfParse.re_search_children ---- *)
Definition ccp_re_search_children (r : nat) (recurse : bool) : list nat :=
  if recurse then find_objects r false false false false
  else filter (fun l => par l =? l) (find_objects r false false false false).

End Search.
