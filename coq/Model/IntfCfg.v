(* C19 — token/character-level models of the typed accessors of IOSIntfLine (BaseIOSIntfLine,
   IOSCfgLine) and IOSRouteLine in ciscoconfparse2/models_cisco.py.

   The accessors are regular-expression one-liners over re_match_iter_typed (search the line itself,
   then every descendant in family order, first match wins) or word tests over the direct children.
   Python's `re` is NOT modelled in general.  Each regular expression used by a modelled accessor is
   written down here as a sequence of items ([pit]) with a deterministic matcher [pm] (greedy, one
   no backtracking: an optional group is taken whenever it matches).  For these particular expressions and for lines whose
   fields are separated by single blanks the matcher coincides with re.search anchored at ^; this is
   what the correspondence (harness/props/c19.py) checks.  Definitions only; proofs in
   Proofs/C19Proofs.v. *)
From Coq Require Import NArith ZArith List Bool Arith.
Require Import CCP.Lib.PyStr.
Import ListNotations.

(* ------------------------------------------------------------------ character classes / spans *)
Fixpoint span (p : char -> bool) (s : str) : str * str :=
  match s with
  | [] => ([], [])
  | c :: r => if p c then let '(a, b) := span p r in (c :: a, b) else ([], s)
  end.
Definition non_space (c : char) : bool := negb (is_space c).
Definition is_alpha_dash (c : char) : bool := is_alpha_ascii c || N.eqb c 45%N.
Definition is_vlan_char (c : char) : bool := is_digit c || N.eqb c 45%N || N.eqb c 44%N || is_space c.
Definition span1 (p : char -> bool) (s : str) : option (str * str) :=
  match span p s with ([], _) => None | (a, b) => Some (a, b) end.

Definition dot : char := 46%N.
(* \d+\.\d+\.\d+\.\d+ *)
Definition take_quad (s : str) : option (str * str) :=
  match span1 is_digit s with
  | Some (a, d1 :: r1) =>
    if N.eqb d1 dot then
      match span1 is_digit r1 with
      | Some (b, d2 :: r2) =>
        if N.eqb d2 dot then
          match span1 is_digit r2 with
          | Some (c, d3 :: r3) =>
            if N.eqb d3 dot then
              match span1 is_digit r3 with
              | Some (d, r4) => Some (a ++ [dot] ++ b ++ [dot] ++ c ++ [dot] ++ d, r4)
              | None => None
              end
            else None
          | _ => None
          end
        else None
      | _ => None
      end
    else None
  | _ => None
  end.

Inductive ckind :=
| KNS1      (* \S+ *)
| KNS0      (* \S* *)
| KDig      (* \d+ *)
| KQuad     (* \d+\.\d+\.\d+\.\d+ *)
| KRest     (* \S.*   (to the end of the line) *)
| KNonDig   (* [^\d]\S+ *)
| KAlpha    (* [A-Za-z\-]+ *)
| KVlans.   (* \d[\d\-\,\s]* *)

Definition take (k : ckind) (s : str) : option (str * str) :=
  match k with
  | KNS1 => span1 non_space s
  | KNS0 => Some (span non_space s)
  | KDig => span1 is_digit s
  | KQuad => take_quad s
  | KRest => match s with c :: _ => if is_space c then None else Some (s, []) | [] => None end
  | KNonDig => match s with
               | c :: r => if is_digit c then None
                           else match span1 non_space r with Some (a, b) => Some (c :: a, b) | None => None end
               | [] => None
               end
  | KAlpha => span1 is_alpha_dash s
  | KVlans => match s with
              | c :: r => if is_digit c then let '(a, b) := span is_vlan_char r in Some (c :: a, b) else None
              | [] => None
              end
  end.

Inductive pit :=
| Lit (s : str)
| Ws0                 (* \s* *)
| Ws1                 (* \s+ *)
| Ws                  (* \s  *)
| Cap (k : ckind)     (* capturing *)
| Skp (k : ckind)     (* not capturing *)
| Opt (g : list pit)  (* (?: ... )? *)
| Star (g : list pit) (* ( ... )*  — captures inside are dropped *)
| End.                (* $ *)

Definition mres := option (list (option str) * str).
Definition pm_seq (f : pit -> str -> mres) : list pit -> str -> mres :=
  fix go (l : list pit) (s : str) : mres :=
    match l with
    | [] => Some ([], s)
    | x :: r => match f x s with
                | Some (c1, s1) => match go r s1 with Some (c2, s2) => Some (c1 ++ c2, s2) | None => None end
                | None => None
                end
    end.

Fixpoint ncaps_it (it : pit) : nat :=
  match it with
  | Cap _ => 1
  | Opt g => list_sum (map ncaps_it g)
  | _ => 0
  end.
Definition ncaps (p : list pit) : nat := list_sum (map ncaps_it p).

(* match ONE item at the beginning of s: captures (None = optional group skipped) and the rest.
   Greedy, no backtracking: an optional group is taken whenever it matches. *)
Fixpoint pm_it (it : pit) (s : str) {struct it} : mres :=
  match it with
  | Lit w => if starts_with w s then Some ([], skipn (length w) s) else None
  | Ws0 => Some ([], lstrip s)
  | Ws1 => match s with c :: s' => if is_space c then Some ([], lstrip s') else None | [] => None end
  | Ws => match s with c :: s' => if is_space c then Some ([], s') else None | [] => None end
  | Cap k => match take k s with Some (m, s') => Some ([Some m], s') | None => None end
  | Skp k => match take k s with Some (_, s') => Some ([], s') | None => None end
  | Opt g => match pm_seq pm_it g s with
             | Some r => Some r
             | None => Some (repeat None (list_sum (map ncaps_it g)), s)
             end
  | Star g =>
      let fix loop (n : nat) (s0 : str) : str :=
        match n with
        | O => s0
        | S n' => match pm_seq pm_it g s0 with
                  | Some (_, s') => if Nat.ltb (length s') (length s0) then loop n' s' else s0
                  | None => s0
                  end
        end in
      Some ([], loop (length s) s)
  | End => match s with [] => Some ([], []) | _ => None end
  end.
Definition pm (p : list pit) (s : str) : mres := pm_seq pm_it p s.

Definition caps (p : list pit) (s : str) : option (list (option str)) := option_map fst (pm p s).
Definition cap_n (n : nat) (p : list pit) (s : str) : option str :=
  match caps p s with Some cs => nth n cs None | None => None end.
Definition matches (p : list pit) (s : str) : bool := match pm p s with Some _ => true | None => false end.

Fixpoint first_some {A} (f : str -> option A) (ls : list str) : option A :=
  match ls with
  | [] => None
  | l :: r => match f l with Some a => Some a | None => first_some f r end
  end.

(* ------------------------------------------------------------------ string constants *)
Definition s_interface : str := [105;110;116;101;114;102;97;99;101]%N.
Definition s_description : str := [100;101;115;99;114;105;112;116;105;111;110]%N.
Definition s_mtu : str := [109;116;117]%N.
Definition s_ip : str := [105;112]%N.
Definition s_address : str := [97;100;100;114;101;115;115]%N.
Definition s_secondary : str := [115;101;99;111;110;100;97;114;121]%N.
Definition s_dhcp : str := [100;104;99;112]%N.
Definition s_negotiated : str := [110;101;103;111;116;105;97;116;101;100]%N.
Definition s_vrf : str := [118;114;102]%N.
Definition s_forwarding : str := [102;111;114;119;97;114;100;105;110;103]%N.
Definition s_shut : str := [115;104;117;116]%N.
Definition s_channel_group : str := [99;104;97;110;110;101;108;45;103;114;111;117;112]%N.
Definition s_switchport : str := [115;119;105;116;99;104;112;111;114;116]%N.
Definition s_access : str := [97;99;99;101;115;115]%N.
Definition s_vlan : str := [118;108;97;110]%N.
Definition s_trunk : str := [116;114;117;110;107]%N.
Definition s_native : str := [110;97;116;105;118;101]%N.
Definition s_allowed : str := [97;108;108;111;119;101;100]%N.
Definition s_mode : str := [109;111;100;101]%N.
Definition s_add : str := [97;100;100]%N.
Definition s_except : str := [101;120;99;101;112;116]%N.
Definition s_remove : str := [114;101;109;111;118;101]%N.
Definition s_all : str := [97;108;108]%N.
Definition s_none : str := [110;111;110;101]%N.
Definition s_route : str := [114;111;117;116;101]%N.
Definition s_global : str := [103;108;111;98;97;108]%N.
Definition s_multicast : str := [109;117;108;116;105;99;97;115;116]%N.
Definition s_name : str := [110;97;109;101]%N.
Definition s_permanent : str := [112;101;114;109;97;110;101;110;116]%N.
Definition s_track : str := [116;114;97;99;107]%N.
Definition s_tag : str := [116;97;103]%N.

(* ------------------------------------------------------------------ the regular expressions *)
(* r"^\s*description\s+(\S.*)$" *)
Definition P_description := [Ws0; Lit s_description; Ws1; Cap KRest; End].
(* r"^\s*mtu\s+(\d+)$" *)
Definition P_mtu := [Ws0; Lit s_mtu; Ws1; Cap KDig; End].
(* r"^\s*(ip\s+)*vrf\sforwarding\s(\S+)$"   (group 2) *)
Definition P_vrf := [Ws0; Star [Lit s_ip; Ws1]; Lit s_vrf; Ws; Lit s_forwarding; Ws; Cap KNS1; End].
(* r"^\s*(shut\S*)\s*$" *)
Definition P_shutdown := [Ws0; Lit s_shut; Skp KNS0; Ws0; End].
(* r"^\s*channel-group\s+(\d+)" *)
Definition P_channel := [Ws0; Lit s_channel_group; Ws1; Cap KDig].
(* r"^\s+ip\s+address\s+(\d+\.\d+\.\d+\.\d+)\s+\d+\.\d+\.\d+\.\d+\s*$" *)
Definition P_v4addr := [Ws1; Lit s_ip; Ws1; Lit s_address; Ws1; Cap KQuad; Ws1; Skp KQuad; Ws0; End].
(* r"^\s+ip\s+address\s+\d+\.\d+\.\d+\.\d+\s+(\d+\.\d+\.\d+\.\d+)\s*$" *)
Definition P_v4mask := [Ws1; Lit s_ip; Ws1; Lit s_address; Ws1; Skp KQuad; Ws1; Cap KQuad; Ws0; End].
(* r"^\s+ip\s+address\s+(dhcp)\s*$" / (negotiated) *)
Definition P_v4dhcp := [Ws1; Lit s_ip; Ws1; Lit s_address; Ws1; Lit s_dhcp; Ws0; End].
Definition P_v4negotiated := [Ws1; Lit s_ip; Ws1; Lit s_address; Ws1; Lit s_negotiated; Ws0; End].
(* r"^\s+ip\s+address\s+(?P<v4addr>\S+)\s+(?P<v4netmask>\d+\.\d+\.\d+\.\d+)\s*$" *)
Definition P_v4obj := [Ws1; Lit s_ip; Ws1; Lit s_address; Ws1; Cap KNS1; Ws1; Cap KQuad; Ws0; End].
(* r"^\s*ip\s+address\s+(?P<secondary>\S+\s+\S+)\s+secondary\s*$" *)
Definition P_secondary := [Ws0; Lit s_ip; Ws1; Lit s_address; Ws1; Cap KNS1; Ws1; Cap KNS1; Ws1; Lit s_secondary; Ws0; End].
(* r"^interface\s+([A-Za-z\-]+)" *)
Definition P_port_type := [Lit s_interface; Ws1; Cap KAlpha].
(* r"^\s+switchport\s+trunk\s+allowed\s+vlan\s+<kw>\s+(\d[\d\-\,\s]*)$" *)
Definition P_allowed_kw (kw : str) :=
  [Ws1; Lit s_switchport; Ws1; Lit s_trunk; Ws1; Lit s_allowed; Ws1; Lit s_vlan; Ws1; Lit kw; Ws1; Cap KVlans; End].
(* r"^\s+switchport\s+trunk\s+allowed\s+vlan\s+(all|none|\d[\d\-\,\s]*)$" : three alternatives *)
Definition P_allowed_pre := [Ws1; Lit s_switchport; Ws1; Lit s_trunk; Ws1; Lit s_allowed; Ws1; Lit s_vlan; Ws1].
Definition P_allowed_all := P_allowed_pre ++ [Lit s_all; End].
Definition P_allowed_none := P_allowed_pre ++ [Lit s_none; End].
Definition P_allowed_list := P_allowed_pre ++ [Cap KVlans; End].

(* _RE_IP_ROUTE (re.VERBOSE), groups in order:
   0 vrf, 1 prefix, 2 netmask, 3 nh_intf, 4 nh_addr, 5 dhcp, 6 global, 7 ad, 8 mcast, 9 name,
   10 permanent, 11 track, 12 tag *)
Definition P_ip_route :=
  [Lit s_ip; Ws1; Lit s_route;
   Opt [Ws1; Lit s_vrf; Ws1; Cap KNS1];
   Ws1; Cap KQuad; Ws1; Cap KQuad;
   Opt [Ws1; Cap KNonDig];
   Opt [Ws1; Cap KQuad];
   Opt [Ws1; Lit s_dhcp];
   Opt [Ws1; Lit s_global];
   Opt [Ws1; Cap KDig];
   Opt [Ws1; Lit s_multicast];
   Opt [Ws1; Lit s_name; Ws1; Cap KNS1];
   Opt [Ws1; Lit s_permanent];
   Opt [Ws1; Lit s_track; Ws1; Cap KDig];
   Opt [Ws1; Lit s_tag; Ws1; Cap KDig]].
(* the keyword groups (dhcp, global, multicast, permanent) are matched but not observed *)

(* ------------------------------------------------------------------ numbers *)
Definition dec_Z (s : str) : option Z := option_map Z.of_N (parse_dec s).

(* dotted quad -> octets, each 0..255 without leading zeros (what ipaddress accepts) *)
Definition octet (s : str) : option N :=
  match s with
  | [] => None
  | 48%N :: _ :: _ => None
  | _ => match parse_dec s with Some n => if (n <=? 255)%N then Some n else None | None => None end
  end.
Definition quad_value (s : str) : option N :=
  match map octet (split_on dot s) with
  | [Some a; Some b; Some c; Some d] => Some (((a * 256 + b) * 256 + c) * 256 + d)%N
  | _ => None
  end.
(* prefix length of a contiguous netmask value *)
Definition masklen_of (m : N) : option Z :=
  let inv := (4294967295 - m)%N in                       (* host bits *)
  if N.eqb (N.land inv (inv + 1)) 0 then Some (32 - Z.of_N (N.log2 (inv + 1)))%Z else None.
Definition masklen_str (mask : str) : option Z :=
  match quad_value mask with Some m => masklen_of m | None => None end.

(* ------------------------------------------------------------------ the interface stanza *)
(* hdr: text of the interface line; desc: all_children in family order with a flag "direct child" *)
Record stanza := { hdr : str; desc : list (bool * str) }.
Definition fam (st : stanza) : list str := hdr st :: map snd (desc st).       (* self, then all_children *)
Definition kids (st : stanza) : list str := map snd (filter fst (desc st)).   (* self.children *)

Definition acc_name (st : stanza) : str := join [32%N] (tl (split_ws (hdr st))).
Definition acc_port_type (st : stanza) : str :=
  match cap_n 0 P_port_type (hdr st) with Some t => t | None => [] end.

(* is_intf: text[0:10] == "interface " and text[10] != " " *)
Definition is_intf (h : str) : bool :=
  str_eqb (firstn 10 h) (s_interface ++ [32%N]) &&
  match nth_error h 10 with Some c => negb (N.eqb c 32%N) | None => false end.

(* slot/card/port[.sub][:chan] of a name  Type<n>[/<n>[/<n>]] followed by :<n> and/or .<n> in either order *)
Fixpoint slash_nums (fuel : nat) (s : str) : list N * str :=
  match fuel with
  | O => ([], s)
  | S f =>
    match span1 is_digit s with
    | Some (d, r) =>
      match parse_dec d, r with
      | Some n, 47%N :: r' =>
          match r' with
          | c :: _ => if is_digit c then let '(ns, r'') := slash_nums f r' in (n :: ns, r'') else ([n], r)
          | [] => ([n], r)
          end
      | Some n, _ => ([n], r)
      | None, _ => ([], s)
      end
    | None => ([], s)
    end
  end.
Definition suffix_num (sep : char) (s : str) : option (N * str) :=
  match s with
  | c :: r => if N.eqb c sep then
                match span1 is_digit r with
                | Some (d, r') => match parse_dec d with Some n => Some (n, r') | None => None end
                | None => None
                end
              else None
  | [] => None
  end.
Definition zopt (o : option N) : Z := match o with Some n => Z.of_N n | None => (-1)%Z end.
(* (slot, card, port, subinterface, channel, interface_class) with -1 for "not an int" *)
Definition acc_ordinal (st : stanza) : option (list Z) :=
  if negb (is_intf (hdr st)) then Some []
  else
    let nm := concat (tl (split_ws (hdr st))) in
    let '(_, r0) := span is_alpha_dash nm in
    let '(ns, r1) := slash_nums 8 r0 in
    let scp := match ns with
               | [p] => Some (None, None, Some p)
               | [s; p] => Some (Some s, None, Some p)
               | [s; c; p] => Some (Some s, Some c, Some p)
               | _ => None
               end in
    match scp with
    | None => None                                   (* shape outside the model *)
    | Some (sl, cd, pt) =>
      let '(ch1, r2) := match suffix_num 58%N r1 with Some (n, r) => (Some n, r) | None => (None, r1) end in
      let '(sb, r3) := match suffix_num dot r2 with Some (n, r) => (Some n, r) | None => (None, r2) end in
      let ch := match ch1 with
                | Some n => Some n
                | None => match suffix_num 58%N r3 with Some (n, _) => Some n | None => None end
                end in
      Some [zopt sl; zopt cd; zopt pt; zopt sb; zopt ch; (-1)%Z]
    end.

Definition acc_description (st : stanza) : str :=
  match first_some (cap_n 0 P_description) (fam st) with Some d => d | None => [] end.

Definition int_acc (p : list pit) (st : stanza) : option Z :=           (* None = int() would raise *)
  match first_some (cap_n 0 p) (fam st) with
  | Some d => dec_Z d
  | None => Some (-1)%Z
  end.
Definition acc_mtu := int_acc P_mtu.
Definition acc_portchannel := int_acc P_channel.

Definition acc_vrf (st : stanza) : str :=
  match first_some (cap_n 0 P_vrf) (fam st) with Some v => v | None => [] end.
Definition acc_shutdown (st : stanza) : bool := existsb (matches P_shutdown) (fam st).

Definition acc_ipv4_addr (st : stanza) : str :=
  if existsb (matches P_v4dhcp) (fam st) then []
  else if existsb (matches P_v4negotiated) (fam st) then []
  else match first_some (cap_n 0 P_v4addr) (fam st) with Some a => a | None => [] end.
Definition acc_ipv4_netmask (st : stanza) : str :=
  match first_some (cap_n 0 P_v4mask) (fam st) with Some a => a | None => [] end.

(* ipv4_masklength through ipv4_addr_object; None = the IPv4Obj constructor raises *)
Definition acc_ipv4_masklength (st : stanza) : option Z :=
  match first_some (fun l => match caps P_v4obj l with Some [Some a; Some m] => Some (a, m) | _ => None end) (fam st) with
  | None => Some (-1)%Z
  | Some (a, m) =>
      if str_eqb a s_dhcp || str_eqb a s_negotiated then Some (-1)%Z
      else match quad_value a, masklen_str m with
           | Some _, Some n => Some n
           | _, _ => None
           end
  end.

(* secondary addresses: every descendant line that matches; (address, mask length); None = raises *)
Definition sec_of_line (l : str) : option (option (str * Z)) :=
  match caps P_secondary l with
  | Some [Some a; Some m] =>
      Some (match quad_value a, masklen_str m with Some _, Some n => Some (a, n) | _, _ => None end)
  | _ => None
  end.
Fixpoint collect_secs (ls : list str) : option (list (str * Z)) :=
  match ls with
  | [] => Some []
  | l :: r => match sec_of_line l with
              | None => collect_secs r
              | Some None => None
              | Some (Some x) => option_map (cons x) (collect_secs r)
              end
  end.
Definition acc_secondaries (st : stanza) : option (list (str * Z)) := collect_secs (map snd (desc st)).

(* --- word tests over the direct children *)
Definition words := split_ws.
Definition w_eqb := list_eqb str_eqb.
Definition acc_is_switchport (st : stanza) : bool :=
  existsb (fun l => match words l with w :: _ => str_eqb w s_switchport | [] => false end) (kids st).
Definition acc_switch_access (st : stanza) : bool :=
  existsb (fun l => w_eqb (firstn 3 (words l)) [s_switchport; s_mode; s_access]) (kids st).

(* None = IndexError / ValueError *)
Definition acc_access_vlan (st : stanza) : option Z :=
  match first_some (fun l => if w_eqb (firstn 3 (words l)) [s_switchport; s_access; s_vlan]
                             then Some (match nth_error (words l) 3 with Some w => py_int w | None => None end)
                             else None) (kids st) with
  | Some r => r
  | None => Some (if acc_is_switchport st then 1 else -1)%Z
  end.
Definition acc_native_vlan (st : stanza) : option Z :=
  match first_some (fun l => if (length (words l) =? 5) && w_eqb (firstn 4 (words l)) [s_switchport; s_trunk; s_native; s_vlan]
                             then Some (match nth_error (words l) 4 with Some w => py_int w | None => None end)
                             else None) (kids st) with
  | Some r => r
  | None => Some (if acc_is_switchport st then 1 else -1)%Z
  end.

(* --- trunk_vlans_allowed *)
(* a set of VLAN numbers is a bit set: bit n <-> n is a member *)
Definition range_bits (a b : N) : N := N.ldiff (N.ones (b + 1)) (N.ones a).       (* {a..b}, empty if b < a *)
Definition zN (z : Z) : option N := match z with Zneg _ => None | _ => Some (Z.to_N z) end.
(* CiscoRange(text, result_type=int).parse_integers : None = raises *)
Definition parse_part (p : str) : option N :=
  if existsb (N.eqb 45%N) p then
    match split_on 45%N p with
    | [a; b] =>
        match py_int a, py_int b with
        | Some x, Some y => match zN x, zN y with Some x', Some y' => Some (range_bits x' y') | _, _ => None end
        | _, _ => None
        end
    | _ => None
    end
  else match py_int p with Some x => option_map (fun n => range_bits n n) (zN x) | None => None end.
Fixpoint parse_parts (ps : list str) : option N :=
  match ps with
  | [] => Some 0%N
  | p :: r => match parse_part p, parse_parts r with Some a, Some b => Some (N.lor a b) | _, _ => None end
  end.
Definition parse_vlans (t : str) : option N := parse_parts (split_on 44%N t).

Definition comma : str := [44%N].
Definition cat_opt (acc : option str) (v : str) : option str :=
  match acc with None => Some v | Some a => Some (a ++ comma ++ v) end.
Definition all_vlans_txt : str := [49;45;52;48;57;52]%N.   (* "1-4094" *)

Record vdict := { v_allowed : str; v_add : option str; v_except : option str; v_remove : option str }.
Definition trunk_step (vd : vdict) (l : str) : vdict :=
  let w := words l in
  if w_eqb (firstn 5 w) [s_switchport; s_trunk; s_allowed; s_vlan; s_add] then
    match cap_n 0 (P_allowed_kw s_add) l with
    | Some v => {| v_allowed := v_allowed vd; v_add := cat_opt (v_add vd) (lower v); v_except := v_except vd; v_remove := v_remove vd |}
    | None => vd end
  else if w_eqb (firstn 5 w) [s_switchport; s_trunk; s_allowed; s_vlan; s_except] then
    match cap_n 0 (P_allowed_kw s_except) l with
    | Some v => {| v_allowed := v_allowed vd; v_add := v_add vd; v_except := cat_opt (v_except vd) (lower v); v_remove := v_remove vd |}
    | None => vd end
  else if w_eqb (firstn 5 w) [s_switchport; s_trunk; s_allowed; s_vlan; s_remove] then
    match cap_n 0 (P_allowed_kw s_remove) l with
    | Some v => {| v_allowed := v_allowed vd; v_add := v_add vd; v_except := v_except vd; v_remove := cat_opt (v_remove vd) (lower v) |}
    | None => vd end
  else if w_eqb (firstn 4 w) [s_switchport; s_trunk; s_allowed; s_vlan] then
    let setal a := {| v_allowed := a; v_add := v_add vd; v_except := v_except vd; v_remove := v_remove vd |} in
    if matches P_allowed_none l then setal []
    else if matches P_allowed_all l then setal all_vlans_txt
    else match cap_n 0 P_allowed_list l with
         | Some v => let v' := lower v in
                     if str_eqb (v_allowed vd) all_vlans_txt || str_eqb (v_allowed vd) [] then setal v'
                     else setal (v_allowed vd ++ comma ++ v')
         | None => vd
         end
  else vd.

(* result as a bit set; None = CiscoRange raises *)
Definition acc_trunk_allowed (st : stanza) : option N :=
  if acc_is_switchport st && negb (acc_switch_access st) then
    let vd := fold_left trunk_step (kids st) {| v_allowed := all_vlans_txt; v_add := None; v_except := None; v_remove := None |} in
    let stripv (o : option str) := match o with Some v => Some (strip v) | None => None end in
    (* key "allowed": the stripped text; "" -> the empty range *)
    let base := if str_eqb (strip (v_allowed vd)) [] then Some 0%N
                else parse_vlans (strip (v_allowed vd)) in
    let step (op : N -> N -> N) (r : option N) (o : option str) :=
        match r, stripv o with
        | Some s, Some v => if str_eqb v [] then Some s else option_map (op s) (parse_vlans v)
        | r', None => r'
        | None, _ => None
        end in
    step N.ldiff (step N.ldiff (step N.lor base (v_add vd)) (v_except vd)) (v_remove vd)
  else Some 0%N.

(* ------------------------------------------------------------------ IOSRouteLine *)
Record route := {
  r_vrf : str; r_prefix : str; r_mask : str; r_masklen : option Z; r_nh_intf : str; r_nh_addr : str;
  r_ad : option Z; r_name : str; r_track : str; r_tag : str }.
Definition ostr (o : option str) : str := match o with Some s => s | None => [] end.
(* None = the constructor raises ValueError (line is not an `ip route`) *)
Definition parse_route (l : str) : option route :=
  match caps P_ip_route l with
  | Some [vrf; Some pfx; Some msk; nhi; nha; ad; nm; trk; tg] =>
      Some {| r_vrf := ostr vrf; r_prefix := pfx; r_mask := msk;
              r_masklen := match quad_value pfx with Some _ => masklen_str msk | None => None end;
              r_nh_intf := ostr nhi; r_nh_addr := ostr nha;
              r_ad := match ad with Some d => if str_eqb d [] then Some 1%Z else dec_Z d | None => Some 1%Z end;
              r_name := ostr nm; r_track := ostr trk; r_tag := ostr tg |}
  | _ => None
  end.
