(* Model of ConfigList.bootstrap's parent/child pass (C02): _maintain_bootstrap_parent_cache,
   _build_bootstrap_parent_child, _add_child_to_parent, the max_indent update.
   Only (indent, is_config_line, is_comment) of each line matter.  No proofs here. *)
From Coq Require Import List Arith Bool NArith.
Require Import CCP.Lib.PyStr.
Import ListNotations.

Record linfo := LI { ind : nat; cfg : bool; cmt : bool }.

(* ---- reading (indent, is_config_line, is_comment) off a line's text, for a list of
        single-character comment delimiters (BaseCfgLine.indent / is_comment / is_config_line) *)
Definition linfo_of (delims : list char) (s : str) : linfo :=
  let body := lstrip s in
  let c := match body with [] => false | ch :: _ => existsb (N.eqb ch) delims end in
  LI (count_leading is_space s) (negb (match body with [] => true | _ => false end) && negb c) c.

(* lines seen so far, most recent first; index of the head = length of the tail *)
Fixpoint nearest (seen : list linfo) (k : nat) : option nat :=
  match seen with
  | [] => None
  | l :: rest => if cfg l && (ind l <? k) then Some (length rest) else nearest rest k
  end.

Definition hd_ind (seen : list linfo) : nat := match seen with [] => 0 | l :: _ => ind l end.

Fixpoint lookup (k : nat) (c : list (nat * nat)) : option nat :=
  match c with [] => None | (k', v) :: r => if k' =? k then Some v else lookup k r end.

(* parents: option nat per line (None = root, i.e. obj.parent is obj);
   edges: (parent, child) in the order of the `parentobj.children.append(childobj)` calls *)
Record state := ST { seen : list linfo; cache : list (nat * nat); maxi : nat;
                     parents : list (option nat); edges : list (nat * nat) }.

Definition init : state := ST [] [] 0 [] [].

Definition step (st : state) (l : linfo) : state :=
  let idx := length (seen st) in
  (* _maintain_bootstrap_parent_cache *)
  let prune := cfg l && (ind l <? maxi st) in
  let cache1 := if prune then filter (fun kv => fst kv <? ind l) (cache st) else cache st in
  let par0 := if prune then None else lookup (ind l) (cache st) in
  (* _build_bootstrap_parent_child *)
  let walked := nearest (seen st) (ind l) in
  let cache2 := if 0 <? ind l then
                  match par0 with
                  | Some _ => cache1
                  | None => match walked with Some p => (ind l, p) :: cache1 | None => cache1 end
                  end
                else cache1 in
  let par1 := if 0 <? ind l then match par0 with Some p => Some p | None => walked end else None in
  (* _add_child_to_parent, with the comment exception *)
  let assigned := match par1 with
                  | Some p => if cmt l && (ind l <? hd_ind (seen st)) then None else Some p
                  | None => None
                  end in
  (* max_indent *)
  let maxi' := if (ind l =? 0) && cfg l then 0 else Nat.max (maxi st) (ind l) in
  ST (l :: seen st) cache2 maxi' (parents st ++ [assigned])
     (match assigned with Some p => edges st ++ [(p, idx)] | None => edges st end).

Definition run (ls : list linfo) : state := fold_left step ls init.

Definition bootstrap_parents (ls : list linfo) : list (option nat) := parents (run ls).
Definition children_of (es : list (nat * nat)) (p : nat) : list nat :=
  map snd (filter (fun e => fst e =? p) es).
Definition bootstrap_children (ls : list linfo) (p : nat) : list nat := children_of (edges (run ls)) p.

(* ---- the rule of property C02, stated independently of any cache *)
Definition spec_parent (seen : list linfo) (l : linfo) : option nat :=
  if ind l =? 0 then None
  else if cmt l && (ind l <? hd_ind seen) then None
  else nearest seen (ind l).

Fixpoint spec_from (seen : list linfo) (ls : list linfo) : list (option nat) :=
  match ls with
  | [] => []
  | l :: r => spec_parent seen l :: spec_from (l :: seen) r
  end.
Definition spec_parents (ls : list linfo) : list (option nat) := spec_from [] ls.

(* children of p by the rule: the lines whose rule-parent is p, in ascending line order *)
Fixpoint indices_with (p : nat) (i : nat) (ps : list (option nat)) : list nat :=
  match ps with
  | [] => []
  | Some q :: r => if q =? p then i :: indices_with p (S i) r else indices_with p (S i) r
  | None :: r => indices_with p (S i) r
  end.
Definition spec_children (ls : list linfo) (p : nat) : list nat := indices_with p 0 (spec_parents ls).
