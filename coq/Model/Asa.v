(* C20 — executable model of the ASA lookup tables and of object-group network expansion
   (ciscoconfparse2/ciscoconfparse2.py ConfigList.asa_object_group_names / asa_object_group_network /
   asa_access_list; ciscoconfparse2/models_asa.py ASAObjGroupNetwork.network_strings / networks).
   Definitions only.

   Regular expressions are an oracle (DESIGN.md section 4): a configuration is given by what its lines MEAN
     names  : the `name <addr> <alias>` lines in config order,
     groups : the `object-group network <name>` lines in config order with their line number and their
              child lines classified as  host h | network a m | group-object g | description | anything else,
     acls   : the `access-list <name> ...` lines in config order with their line number;
   the harness renders that description as configuration text for the real parser.  Everything the code does
   after the regex matches (dict construction with later entries overriding, the netmask 255.255.255.255 rule,
   names.get(x, x), self-reference and missing-group errors, recursion, the IPv4Obj cache) is modelled.
   Python dicts are association lists with unique keys (insertion order, assignment replaces in place).
   Recursion through group-objects uses explicit fuel; exhaustion (= RecursionError) is a Raise. *)
From Coq Require Import NArith ZArith List Bool.
Require Import CCP.Lib.PyStr CCP.Lib.Res.
Import ListNotations.
Open Scope Z_scope.

(* ---------------------------------------------------------------- Python dict with str keys *)
Fixpoint dict_set {V} (d : list (str * V)) (k : str) (v : V) : list (str * V) :=
  match d with
  | [] => [(k, v)]
  | (k', v') :: r => if str_eqb k' k then (k, v) :: r else (k', v') :: dict_set r k v
  end.
Fixpoint dict_get {V} (d : list (str * V)) (k : str) : option V :=
  match d with
  | [] => None
  | (k', v') :: r => if str_eqb k' k then Some v' else dict_get r k
  end.
Definition dict_get_default {V} (d : list (str * V)) (k : str) (dflt : V) : V :=
  match dict_get d k with Some v => v | None => dflt end.

(* ---------------------------------------------------------------- configuration description *)
Inductive member :=
| MHost (h : str)            (* network-object host <h> *)
| MNet (a m : str)           (* network-object <a> <m>  *)
| MGroup (g : str)           (* group-object <g> *)
| MDescr                     (* description ... *)
| MOther.                    (* any other child line *)

Definition group : Type := str * Z * list member.          (* name, line number, children in order *)
Definition g_name (g : group) : str := fst (fst g).
Definition g_line (g : group) : Z := snd (fst g).
Definition g_members (g : group) : list member := snd g.

Record config := { c_names : list (str * str);             (* (addr, alias) in config order *)
                   c_groups : list group;
                   c_acls : list (str * Z) }.               (* (acl name, line number) in config order *)

(* asa_object_group_names: retval[name] = addr for every name line, in order *)
Definition names_table (c : config) : list (str * str) :=
  fold_left (fun d e => dict_set d (snd e) (fst e)) (c_names c) [].

(* asa_object_group_network: retval[name] = obj *)
Definition group_table (c : config) : list (str * group) :=
  fold_left (fun d g => dict_set d (g_name g) g) (c_groups c) [].

(* asa_access_list: tmp = retval.get(name, []); tmp.append(obj); retval[name] = tmp *)
Definition acl_table (c : config) : list (str * list Z) :=
  fold_left (fun d e => dict_set d (fst e) (dict_get_default d (fst e) [] ++ [snd e])) (c_acls c) [].

(* ---------------------------------------------------------------- network_strings *)
Definition host_mask : str := [50;53;53;46;50;53;53;46;50;53;53;46;50;53;53]%N.   (* "255.255.255.255" *)
Definition slash : char := 47%N.

Definition resolve (names : list (str * str)) (x : str) : str := dict_get_default names x x.

Fixpoint net_strings (fuel : nat) (names : list (str * str)) (gt : list (str * group)) (g : group)
  : result (list str) :=
  match fuel with
  | O => Raise E_Other                                      (* RecursionError *)
  | S f =>
      fold_left (fun acc m =>
        bind acc (fun retval =>
          match m with
          | MHost h => Ok (retval ++ [resolve names h])
          | MNet a mask => if str_eqb mask host_mask then Ok (retval ++ [resolve names a])
                           else Ok (retval ++ [resolve names a ++ slash :: mask])
          | MGroup x =>
              if str_eqb x (g_name g) then Raise E_ValueError
              else match dict_get gt x with
                   | None => Raise E_ValueError
                   | Some g' => bind (net_strings f names gt g') (fun l => Ok (retval ++ l))
                   end
          | MDescr => Ok retval
          | MOther => Raise E_NotImplementedError
          end))
        (g_members g) (Ok [])
  end.

Definition network_strings (c : config) (g : group) : result (list str) :=
  net_strings (S (length (c_groups c))) (names_table c) (group_table c) g.

(* ---------------------------------------------------------------- networks (IPv4Obj is an oracle) *)
Section Networks.
  Variable obj : Type.
  Variable ipv4obj : str -> result obj.       (* IPv4Obj(net_str): C11's subject, a parameter here *)

  (* one pass of the loop over network_strings with the ConfigList._network_cache dict *)
  Fixpoint networks_loop (cache : list (str * obj)) (strs : list str) : result (list obj) * list (str * obj) :=
    match strs with
    | [] => (Ok [], cache)
    | s :: r =>
        match dict_get cache s with
        | Some o => let '(res, cache') := networks_loop cache r in (bind res (fun l => Ok (o :: l)), cache')
        | None =>
            match ipv4obj s with
            | Raise e => (Raise e, cache)
            | Ok o => let '(res, cache') := networks_loop (dict_set cache s o) r in
                      (bind res (fun l => Ok (o :: l)), cache')
            end
        end
    end.
End Networks.
