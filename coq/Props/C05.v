(* C05 — Typed value extraction returns the first match in family order, else the default.

   Every theorem is about the executable model Model/Extract.v (tied to /repo by the correspondence
   stream of harness/props/c05.py) and holds for EVERY forest `kids`, EVERY regex/group oracle
   `mg : line -> NoM | MNone | MBad | MGrp s` and EVERY conversion oracle (conv, conv_none, dconv, draw).
   Specification vocabulary (Proofs/C05Proofs.v):
     family recurse l         the lines a call on line l looks at, in order: l, then its direct children
                              (recurse=false) or all its descendants in ascending line order (recurse=true)
     roots                    the lines that are their own parent, in config order
     first_match_result ls u  convert (requested group of the FIRST line of ls that matches), else the
                              default: `dconv` = result_type(default), or `Ok draw` = the default untouched when u
     mapM                     conversions in order, the first failure raises
   Hypothesis WF kids (children have larger line numbers; checked on every real case) is needed only to
   describe all_children as "the descendants in ascending order".
   The statement's quantifier is "the requested group participates in the match" (mg x = MGrp s, theorem
   C05_convert_group); for an optional group that does not participate the iterating variants convert None
   (finding F24, information only: C05_F24_iter_differs_from_typed). *)
From Coq Require Import List Arith Bool Sorting.Sorted.
Import ListNotations.
Require Import CCP.Lib.Res CCP.Model.Search CCP.Model.Extract CCP.Proofs.C04Proofs CCP.Proofs.C05Proofs.

(* ---- re_match_iter_typed = first match of the family, else the default ---- *)
Theorem C05_iter_first_match :
  forall (kids : list (list nat)) (mg : nat -> mres) (conv : nat -> result nat)
  (conv_none dconv : result nat) (draw l : nat) (recurse untyped : bool),
  re_match_iter_typed kids mg conv conv_none dconv draw l recurse untyped =
  first_match_result mg conv conv_none dconv draw (family kids recurse l) untyped.
Proof. exact iter_first_match. Qed.
Print Assumptions C05_iter_first_match.

Theorem C05_first_match_some :
  forall (mg : nat -> mres) (conv : nat -> result nat) (conv_none dconv : result nat)
  (draw : nat) (ls : list nat) (untyped : bool) (pre : list nat) (x : nat)
  (post : list nat),
  ls = (pre ++ x :: post)%list ->
  is_match mg x = true ->
  (forall y : nat, List.In y pre -> is_match mg y = false) ->
  first_match_result mg conv conv_none dconv draw ls untyped = convert mg conv conv_none x.
Proof. exact first_match_some. Qed.
Print Assumptions C05_first_match_some.

Theorem C05_first_match_none :
  forall (mg : nat -> mres) (conv : nat -> result nat) (conv_none dconv : result nat)
  (draw : nat) (ls : list nat) (untyped : bool),
  (forall y : nat, List.In y ls -> is_match mg y = false) ->
  first_match_result mg conv conv_none dconv draw ls untyped = (if untyped then Ok draw else dconv).
Proof. exact first_match_none. Qed.
Print Assumptions C05_first_match_none.

Theorem C05_first_match_cases :
  forall (mg : nat -> mres) (conv : nat -> result nat) (conv_none dconv : result nat)
  (draw : nat) (ls : list nat) (untyped : bool),
  (exists (pre : list nat) (x : nat) (post : list nat),
  ls = (pre ++ x :: post)%list /\
  is_match mg x = true /\
  (forall y : nat, List.In y pre -> is_match mg y = false) /\
  first_match_result mg conv conv_none dconv draw ls untyped = convert mg conv conv_none x) \/
  (forall y : nat, List.In y ls -> is_match mg y = false) /\
  first_match_result mg conv conv_none dconv draw ls untyped = (if untyped then Ok draw else dconv).
Proof. exact first_match_cases. Qed.
Print Assumptions C05_first_match_cases.

Theorem C05_convert_group :
  forall (mg : nat -> mres) (conv : nat -> result nat) (conv_none : result nat) (x s : nat),
  mg x = MGrp s -> convert mg conv conv_none x = conv s.
Proof. exact convert_group. Qed.
Print Assumptions C05_convert_group.

(* ---- the family order ---- *)
Theorem C05_family_direct :
  forall (kids : list (list nat)) (l : nat), family kids false l = (l :: children kids l)%list.
Proof. exact family_direct. Qed.
Print Assumptions C05_family_direct.

Theorem C05_family_recurse :
  forall (kids : list (list nat)) (l : nat),
  WF kids ->
  exists ds : list nat,
  family kids true l = (l :: ds)%list /\
  Sorted.StronglySorted le ds /\
  (forall x : nat, List.In x ds <-> Desc kids l x) /\
  (forall x : nat, List.In x ds -> l < x < length kids).
Proof. exact family_recurse. Qed.
Print Assumptions C05_family_recurse.

(* ---- re_list_iter_typed = every match of the family, in order ---- *)
Theorem C05_list_all_matches :
  forall (kids : list (list nat)) (mg : nat -> mres) (conv : nat -> result nat)
  (conv_none : result nat) (l : nat) (recurse : bool),
  re_list_iter_typed kids mg conv conv_none l recurse =
  mapM (convert mg conv conv_none) (List.filter (is_match mg) (family kids recurse l)).
Proof. exact list_all_matches. Qed.
Print Assumptions C05_list_all_matches.

Theorem C05_list_all_matches_ok :
  forall (kids : list (list nat)) (mg : nat -> mres) (conv : nat -> result nat)
  (conv_none : result nat) (l : nat) (recurse : bool) (vs : list nat),
  re_list_iter_typed kids mg conv conv_none l recurse = Ok vs <->
  List.Forall2 (fun x v : nat => convert mg conv conv_none x = Ok v)
  (List.filter (is_match mg) (family kids recurse l)) vs.
Proof. exact list_all_matches_ok. Qed.
Print Assumptions C05_list_all_matches_ok.

(* ---- CiscoConfParse.re_match_iter_typed = first match among the root lines ---- *)
Theorem C05_root_first_match :
  forall (kids : list (list nat)) (par : nat -> nat) (mg : nat -> mres) (conv : nat -> result nat)
  (conv_none dconv : result nat) (draw : nat) (untyped : bool),
  ccp_re_match_iter_typed kids par mg conv conv_none dconv draw untyped =
  first_match_result mg conv conv_none dconv draw (roots kids par) untyped.
Proof. exact root_first_match. Qed.
Print Assumptions C05_root_first_match.

Theorem C05_roots_sorted :
  forall (kids : list (list nat)) (par : nat -> nat), Sorted.StronglySorted lt (roots kids par).
Proof. exact roots_sorted. Qed.
Print Assumptions C05_roots_sorted.

Theorem C05_In_roots :
  forall (kids : list (list nat)) (par : nat -> nat) (l : nat),
  List.In l (roots kids par) <-> l < length kids /\ par l = l.
Proof. exact In_roots. Qed.
Print Assumptions C05_In_roots.

(* ---- single line (re_match_typed, re_match) ---- *)
Theorem C05_typed_group :
  forall (mg : nat -> mres) (conv : nat -> result nat) (dconv : result nat)
  (draw l : nat) (untyped : bool) (s : nat),
  mg l = MGrp s -> re_match_typed mg conv dconv draw l untyped = conv s.
Proof. exact typed_group. Qed.
Print Assumptions C05_typed_group.

Theorem C05_typed_default :
  forall (mg : nat -> mres) (conv : nat -> result nat) (dconv : result nat)
  (draw l : nat) (untyped : bool),
  mg l = NoM \/ mg l = MNone ->
  re_match_typed mg conv dconv draw l untyped = (if untyped then Ok draw else dconv).
Proof. exact typed_default. Qed.
Print Assumptions C05_typed_default.

Theorem C05_typed_eq_iter_leaf :
  forall (kids : list (list nat)) (mg : nat -> mres) (conv : nat -> result nat)
  (conv_none dconv : result nat) (draw l : nat) (recurse untyped : bool),
  Extract.offspring kids recurse l = nil ->
  mg l <> MNone ->
  re_match_iter_typed kids mg conv conv_none dconv draw l recurse untyped =
  re_match_typed mg conv dconv draw l untyped.
Proof. exact typed_eq_iter_leaf. Qed.
Print Assumptions C05_typed_eq_iter_leaf.

Theorem C05_re_match_spec :
  forall (mg : nat -> mres) (conv : nat -> result nat) (conv_none : result nat) (draw l : nat),
  re_match mg conv conv_none draw l = (if is_match mg l then convert mg conv conv_none l else Ok draw).
Proof. exact re_match_spec. Qed.
Print Assumptions C05_re_match_spec.

(* ---- F24 (information) ---- *)
Theorem C05_F24_iter_differs_from_typed :
  exists (mg : nat -> mres) (conv : nat -> result nat) (cnone dconv : result nat)
  (draw : nat),
  re_match_iter_typed (nil :: nil) mg conv cnone dconv draw 0 true false <>
  re_match_typed mg conv dconv draw 0 false.
Proof. exact F24_iter_differs_from_typed. Qed.
Print Assumptions C05_F24_iter_differs_from_typed.
