(* C05 — typed value extraction returns the first match in family order, else the default. *)
From Coq Require Import List Arith Bool.
Require Import CCP.Lib.Res CCP.Model.Search CCP.Model.Extract CCP.Proofs.C05Proofs.
Import ListNotations.

Theorem C05_re_match_typed_nomatch : forall mg conv dconv draw l u,
  mg l = NoM -> re_match_typed mg conv dconv draw l u = default_result dconv draw u.
Proof. exact re_match_typed_nomatch. Qed.
Print Assumptions C05_re_match_typed_nomatch.
