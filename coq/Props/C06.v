(* C06 -- edits change exactly the targeted lines.  text_effect (Model/Session.v) is the text effect of each editing operation on a committed state, expressed with the plain list operations insert_at / remove_idx / set_nth / insert_flagged; the theorems are their frame properties for every list and target: exactly one line is added (removing it gives the old list back), delete keeps exactly the lines that are neither the target nor its descendants, set_nth changes one line, regex insertion adds one copy per match.  insertion_preserves_parents: an inserted line leaves every existing parent link alone when (A) every later line it could capture is already shielded by a configuration line after the insertion point and (B) the comment exception of the line directly below does not flip -- F36 violates (A), F35 violates (B); insertion_after_family_preserves_parents: both hold whenever the line directly below the insertion point is an ordinary command shallower than the new line (or nothing follows), which is append_to_family's normal case.  append_to_family: the observed index must satisfy atf_ok (PARTIAL: checked per case, see DESIGN.md 9.2). *)
From Coq Require Import List Arith Bool NArith ZArith. Require Import CCP.Lib.Res CCP.Lib.PyStr CCP.Model.Links CCP.Model.Parse CCP.Model.Family CCP.Model.Session CCP.Proofs.ParseProofs CCP.Proofs.SessionProofs CCP.Proofs.InsertProofs. Import ListNotations.

Theorem C06_insert_at_length :
  forall (A : Type) k (x : A) l, length (insert_at k x l) = S (length l).
Proof. exact (fun A => @insert_at_length A). Qed.
Print Assumptions C06_insert_at_length.

Theorem C06_insert_then_remove :
  forall (A : Type) k (x : A) l, k <= length l -> remove_idx [k] 0 (insert_at k x l) = l.
Proof. exact (fun A => @insert_then_remove A). Qed.
Print Assumptions C06_insert_then_remove.

Theorem C06_insert_at_nth :
  forall (A : Type) k (x : A) l d, k <= length l -> nth k (insert_at k x l) d = x /\ (forall j, j < k -> nth j (insert_at k x l) d = nth j l d) /\ (forall j, k <= j -> nth (S j) (insert_at k x l) d = nth j l d).
Proof. exact (fun A => @insert_at_nth A). Qed.
Print Assumptions C06_insert_at_nth.

Theorem C06_remove_idx_spec :
  forall (A : Type) idxs, forall (l : list A) i, remove_idx idxs i l = map snd (keep_idx idxs i l).
Proof. exact (fun A => @remove_idx_spec A). Qed.
Print Assumptions C06_remove_idx_spec.

Theorem C06_keep_idx_spec :
  forall (A : Type) idxs, forall (l : list A) i j x, In (j, x) (keep_idx idxs i l) <-> i <= j /\ nth_error l (j - i) = Some x /\ ~ In j idxs.
Proof. exact (fun A => @keep_idx_spec A). Qed.
Print Assumptions C06_keep_idx_spec.

Theorem C06_set_nth_spec :
  forall (A : Type) i (x : A), forall l d, i < length l -> length (set_nth i x l) = length l /\ nth i (set_nth i x l) d = x /\ (forall j, j <> i -> nth j (set_nth i x l) d = nth j l d).
Proof. exact (fun A => @set_nth_spec A). Qed.
Print Assumptions C06_set_nth_spec.

Theorem C06_insert_flagged_length :
  forall (A : Type) after (x : A), forall l m, length m = length l -> length (insert_flagged after x l m) = length l + length (filter (fun b => b) m).
Proof. exact (fun A => @insert_flagged_length A). Qed.
Print Assumptions C06_insert_flagged_length.

Theorem C06_insert_flagged_frame :
  forall (A : Type) after (x : A), forall l m, length m = length l -> drop_inserted after (insert_flagged after x l m) m = l.
Proof. exact (fun A => @insert_flagged_frame A). Qed.
Print Assumptions C06_insert_flagged_frame.

Theorem C06_py_insert_index_le :
  forall k n, py_insert_index k n <= n.
Proof. exact py_insert_index_le. Qed.
Print Assumptions C06_py_insert_index_le.

Theorem C06_py_pop_index_lt :
  forall k n j, py_pop_index k n = Some j -> j < n.
Proof. exact py_pop_index_lt. Qed.
Print Assumptions C06_py_pop_index_lt.

Theorem C06_effect_insert :
  forall o ls k x, exists j, j <= length ls /\ text_effect o ls (OInsert k x) = Ok (insert_at j x ls).
Proof. exact effect_insert. Qed.
Print Assumptions C06_effect_insert.

Theorem C06_effect_append :
  forall o ls x, text_effect o ls (OAppend x) = Ok (insert_at (length ls) x ls).
Proof. exact effect_append. Qed.
Print Assumptions C06_effect_append.

Theorem C06_effect_pop :
  forall o ls k, (exists j, j < length ls /\ text_effect o ls (OPop k) = Ok (remove_idx [j] 0 ls)) \/ text_effect o ls (OPop k) = Raise E_IndexError.
Proof. exact effect_pop. Qed.
Print Assumptions C06_effect_pop.

Theorem C06_effect_obj_insert :
  forall o ls after i x, i < length ls -> text_effect o ls (OObjIns after i x) = Ok (insert_at (if after then S i else i) x ls).
Proof. exact effect_obj_insert. Qed.
Print Assumptions C06_effect_obj_insert.

Theorem C06_effect_delete :
  forall o ls i, i < length ls -> text_effect o ls (ODelete i) = Ok (remove_idx (i :: all_children (tree_parents o ls) i) 0 ls).
Proof. exact effect_delete. Qed.
Print Assumptions C06_effect_delete.

Theorem C06_effect_set_text :
  forall o ls i x, i < length ls -> text_effect o ls (OSetText i x) = Ok (set_nth i (PL (escape_braces (ptext x)) (pban x)) ls).
Proof. exact effect_set_text. Qed.
Print Assumptions C06_effect_set_text.

Theorem C06_effect_list_insert :
  forall o ls after m x, text_effect o ls (OListIns after m x) = Ok (insert_flagged after x ls m).
Proof. exact effect_list_insert. Qed.
Print Assumptions C06_effect_list_insert.

Theorem C06_effect_atf :
  forall o ls i k x ls', text_effect o ls (OAtf i k x) = Ok ls' -> ls' = insert_at k x ls /\ atf_ok o ls i k x = true.
Proof. exact effect_atf. Qed.
Print Assumptions C06_effect_atf.

Theorem C06_atf_child_index_iff :
  forall ps i a b k, atf_child_index ps i a b = Some k <-> b = S a /\ k = S (family_endpoint ps i).
Proof. exact atf_child_index_iff. Qed.
Print Assumptions C06_atf_child_index_iff.

Theorem C06_atf_child_index_in_family :
  forall ps i a b k, WFmap ps -> atf_child_index ps i a b = Some k -> i < k /\ k = S (family_endpoint ps i) /\ (forall x, In x (all_children ps i) -> x < k).
Proof. exact atf_child_index_in_family. Qed.
Print Assumptions C06_atf_child_index_in_family.

Theorem C06_atf_sibling_index_refuted :
  exists o ls i x, let ps := tree_parents o ls in let k := atf_sibling_index_children ps i in ind (linfo_of (o_delims o) (ptext x)) = ind (linfo_of (o_delims o) (ptext (nth i ls (PL [] None)))) /\ has_children ps i = true /\ parent_of ps 2 = Some 0 /\ parent_of (tree_parents o (insert_at k x ls)) 3 = Some 2 /\ atf_ok o ls i k x = false.
Proof. exact atf_sibling_index_refuted. Qed.
Print Assumptions C06_atf_sibling_index_refuted.

Theorem C06_delete_removes_family :
  forall o ls i j x, i < length ls -> forall ls', text_effect o ls (ODelete i) = Ok ls' -> (In (j, x) (keep_idx (i :: all_children (tree_parents o ls) i) 0 ls) <-> nth_error ls j = Some x /\ j <> i /\ ~ ancestor (tree_parents o ls) i j).
Proof. exact delete_removes_family. Qed.
Print Assumptions C06_delete_removes_family.

Theorem C06_insertion_preserves_parents :
  forall pre s suf, shielded s [] suf = true -> first_ok s (rev pre) suf = true -> spec_parents (pre ++ s :: suf) = spec_parents pre ++ [spec_parent (rev pre) s] ++ map (shift (length pre)) (spec_from (rev pre) suf).
Proof. exact insertion_preserves_parents. Qed.
Print Assumptions C06_insertion_preserves_parents.

Theorem C06_parents_before_insertion :
  forall pre suf, spec_parents (pre ++ suf) = spec_parents pre ++ spec_from (rev pre) suf.
Proof. exact parents_before_insertion. Qed.
Print Assumptions C06_parents_before_insertion.

Theorem C06_bootstrap_insertion :
  forall pre s suf, shielded s [] suf = true -> first_ok s (rev pre) suf = true -> bootstrap_parents (pre ++ s :: suf) = firstn (length pre) (bootstrap_parents (pre ++ suf)) ++ [spec_parent (rev pre) s] ++ map (shift (length pre)) (skipn (length pre) (bootstrap_parents (pre ++ suf))).
Proof. exact bootstrap_insertion. Qed.
Print Assumptions C06_bootstrap_insertion.

Theorem C06_insert_before_shallower_command :
  forall pre s suf, match suf with [] => True | l :: _ => cfg l = true /\ cmt l = false /\ ind l < ind s end -> shielded s [] suf = true /\ first_ok s (rev pre) suf = true.
Proof. exact insert_before_shallower_command. Qed.
Print Assumptions C06_insert_before_shallower_command.

Theorem C06_insertion_after_family_preserves_parents :
  forall pre s suf, match suf with [] => True | l :: _ => cfg l = true /\ cmt l = false /\ ind l < ind s end -> spec_parents (pre ++ s :: suf) = spec_parents pre ++ [spec_parent (rev pre) s] ++ map (shift (length pre)) (spec_from (rev pre) suf).
Proof. exact insertion_after_family_preserves_parents. Qed.
Print Assumptions C06_insertion_after_family_preserves_parents.
