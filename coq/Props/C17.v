(* C17 — Cisco password helpers: type 7 decrypts to the original; type 5/8/9 verify.
   Statements are about Model/Pw7.v (hand model of CiscoPassword, tables regenerated from the source on every
   run: gen/TabC17.v).  A password is the list of its code points (bytes for the ASCII alphabet of the property).

   FULL STATEMENT of the property and what is proved of it:
   (a) for every password the helper accepts, decrypt_type_7 (encrypt_type_7 p) = p             -- proved (C17_type7_roundtrip_accepted)
   (b) type-7 strings of an independent encoder with ANY salt decrypt to the plaintext           -- proved (C17_decrypt7_encrypt7, all salts < 100)
   (c) type 5 / 8 / 9 outputs have the Cisco format ...                                          -- layout proved for 8 / 9 (C17_type89_layout,
                                                                                                    C17_hash_field_43, C17_translate_is_cisco_b64)
       ... and verify when recomputed with MD5-crypt / PBKDF2-HMAC-SHA256 / scrypt              -- NOT PROVED (tested by recomputation only:
                                                                                                    stream fmt89 and aux() of harness/props/c17.py)
   (d) passwords longer than 127 characters or containing '?' or a double quote are rejected                -- proved (C17_pwd_check_rejects, C17_pwd_check_spec) *)
From Coq Require Import NArith ZArith List.
Require Import CCP.Lib.PyStr CCP.Lib.Res CCP.gen.TabC17 CCP.Model.Pw7 CCP.Proofs.C17Proofs.
Import ListNotations.
Open Scope N_scope.

(* (b) the reference encoder's output decrypts to the plaintext: every two-digit salt, every non-empty byte string *)
Theorem C17_decrypt7_encrypt7 : forall salt pw,
  salt < 100 -> pw <> [] -> Forall (fun b => b < 256) pw -> decrypt7 (encrypt7 salt pw) = Ok pw.
Proof. exact decrypt7_encrypt7. Qed.
Print Assumptions C17_decrypt7_encrypt7.
Example ex_decrypt7 : decrypt7 [48;50;48;53;48;68;52;56;48;56;48;57] = Ok [99;105;115;99;111]   (* "02050D480809" -> "cisco" *)
                      /\ encrypt7 2 [99;105;115;99;111] = [48;50;48;53;48;68;52;56;48;56;48;57].
Proof. split; vm_compute; reflexivity. Qed.

(* (a) CiscoPassword().decrypt_type_7(CiscoPassword().encrypt_type_7(p)) = p whatever salt the encoder draws *)
Theorem C17_type7_roundtrip_accepted : forall salt pw,
  salt < 100 -> pw <> [] -> Forall (fun b => b < 256) pw -> pwd_check pw = Ok tt ->
  bind (encrypt_type_7 salt pw) decrypt7 = Ok pw.
Proof. exact type7_roundtrip_accepted. Qed.
Print Assumptions C17_type7_roundtrip_accepted.
Example ex_roundtrip_hyp : pwd_check [99;105;115;99;111] = Ok tt /\ Forall (fun b => b < 256) [99;105;115;99;111].
Proof. split; [reflexivity | repeat constructor]. Qed.

(* the encoder's output is a type-7 string: two decimal digits spelling the salt, two upper-case hex digits per byte *)
Theorem C17_encrypt7_shape : forall salt pw, salt < 100 -> Forall (fun b => b < 256) pw ->
  exists d1 d2 body, encrypt7 salt pw = d1 :: d2 :: body /\ is_digit d1 = true /\ is_digit d2 = true /\
    (Z.of_N (10 * (d1 - 48) + (d2 - 48)) = Z.of_N salt) /\ length body = (2 * length pw)%nat /\ forallb is_upper_hex body = true.
Proof. exact encrypt7_shape. Qed.
Print Assumptions C17_encrypt7_shape.

(* the xlat tuple written in decrypt_type_7 is Cisco's key "dsfd;kfoA,.iyewrkldJKDHSUBsgvca69834ncxv9873254k;fg87", wrapped at 53 *)
Theorem C17_xlat_is_cisco_key : tab_xlat = cisco_key /\ tab_wrap = 53%Z /\ length tab_xlat = 53%nat.
Proof. exact (conj xlat_is_cisco_key (conj wrap_is_53 xlat_len)). Qed.
Print Assumptions C17_xlat_is_cisco_key.

(* every constant of TabC17.v was read from the current source (none had to be replaced by its reference value) *)
Theorem C17_tables_read_from_source : tab_unread = [].
Proof. reflexivity. Qed.
Print Assumptions C17_tables_read_from_source.

(* (d) pwd_check accepts exactly: length <= 127 and no character of invalid_chars (which the source defines as ?, backslash, double quote) *)
Theorem C17_pwd_check_spec : forall pw,
  pwd_check pw = Ok tt <-> (length pw <= tab_max_len)%nat /\ Forall (fun c => ~ In c tab_invalid_chars) pw.
Proof. exact pwd_check_spec. Qed.
Print Assumptions C17_pwd_check_spec.
Theorem C17_pwd_check_rejects : forall pw, (127 < length pw)%nat \/ In 63 pw \/ In 34 pw -> pwd_check pw = Raise E_Other.
Proof. exact pwd_check_rejects. Qed.
Print Assumptions C17_pwd_check_rejects.
Example ex_rejects : pwd_check [97; 63; 98] = Raise E_Other /\ pwd_check [34] = Raise E_Other /\ pwd_check (repeat 97 128) = Raise E_Other
                     /\ pwd_check (repeat 97 127) = Ok tt.
Proof. repeat split; vm_compute; reflexivity. Qed.

(* (c), layout part.  The std -> Cisco translation table is a bijection between the two 64-character alphabets ... *)
Theorem C17_b64_translation_bijective :
  (length tab_std_b64 = 64%nat /\ length tab_cisco_b64 = 64%nat /\ NoDup tab_std_b64 /\ NoDup tab_cisco_b64 /\
   ~ In PAD tab_std_b64 /\ ~ In PAD tab_cisco_b64 /\ ~ In DOLLAR tab_cisco_b64) /\
  (forall c, In c tab_std_b64 -> In (tr_char c) tab_cisco_b64) /\
  (forall c d, In c tab_std_b64 -> In d tab_std_b64 -> tr_char c = tr_char d -> c = d) /\
  (forall d, In d tab_cisco_b64 -> exists c, In c tab_std_b64 /\ tr_char c = d).
Proof. exact (conj alphabets_wf b64_translation_bijective). Qed.
Print Assumptions C17_b64_translation_bijective.

(* ... so that translating the standard base-64 text IS base-64 with Cisco's alphabet, for every byte string *)
Theorem C17_translate_is_cisco_b64 : forall bs, Forall (fun b => b < 256) bs ->
  translate (b64enc tab_std_b64 bs) = b64enc tab_cisco_b64 bs.
Proof. exact translate_b64enc. Qed.
Print Assumptions C17_translate_is_cisco_b64.

(* the hash field of every 32-byte digest: the 43 unpadded base-64 characters in Cisco's alphabet (only the '=' is cut off) *)
Theorem C17_hash_field_43 : forall d, length d = 32%nat -> Forall (fun b => b < 256) d ->
  b64enc tab_cisco_b64 d = cisco_hash d ++ [PAD] /\ length (cisco_hash d) = 43%nat /\
  Forall (fun c => In c tab_cisco_b64) (cisco_hash d).
Proof. exact cisco_hash_32. Qed.
Print Assumptions C17_hash_field_43.

(* "$8$<salt>$<43 chars>" / "$9$<salt>$<43 chars>" *)
Theorem C17_type89_layout : forall kind salt d, length d = 32%nat -> Forall (fun b => b < 256) d ->
  type89_string kind salt d = [DOLLAR; kind; DOLLAR] ++ salt ++ [DOLLAR] ++ firstn 43 (b64enc tab_cisco_b64 d) /\
  length (type89_string kind salt d) = (3 + length salt + 1 + 43)%nat.
Proof. exact type89_layout. Qed.
Print Assumptions C17_type89_layout.
Example ex_layout :
  type89_string 56 [97;98] (repeat 0 31 ++ [255]) =
  [36;56;36;97;98;36] ++ repeat 46 41 ++ [68; 119] /\ tab_t8_dklen = 32%nat /\ tab_t8_rounds = 20000 /\ tab_t9_params = [16384; 1; 1; 32]
  /\ tab_t8_saltlen = 14%nat /\ tab_t9_saltlen = 14%nat.
Proof. repeat split; vm_compute; reflexivity. Qed.

(* information (outside the property's quantifier): the empty password passes pwd_check although the message says 1..127,
   and its type-7 encoding (the two salt digits alone) makes decrypt_type_7 raise AttributeError *)
Example ex_empty_password : pwd_check [] = Ok tt /\ decrypt7 (encrypt7 7 []) = Raise E_AttributeError.
Proof. split; vm_compute; reflexivity. Qed.
