(* placeholder; replaced below *)
Require Import CCP.Model.Pw7.
