(* C13 -- address objects obey ordering, equality, hashing and arithmetic laws. Statements are about the Gallina terms regenerated from IPv4Obj / IPv6Obj (__lt__, __gt__, __eq__, __ne__, __add__, __sub__, prefix-length setters, network_offset setter) in /repo on every run. lexlt is the lexicographic order on (network number, prefix length, host address). *)
From Coq Require Import ZArith. Require Import CCP.Lib.Res CCP.Model.IPRef CCP.gen.GenIP CCP.Proofs.C13Proofs. Open Scope Z_scope.

Theorem C13_v4_lt_key :
  forall a b, wf 32 a -> wf 32 b -> gen_v4_lt a b = Ok true <-> lexlt 32 a b.
Proof. exact v4_lt_key. Qed.
Print Assumptions C13_v4_lt_key.

Theorem C13_v4_gt_key :
  forall a b, wf 32 a -> wf 32 b -> gen_v4_gt a b = Ok true <-> lexlt 32 b a.
Proof. exact v4_gt_key. Qed.
Print Assumptions C13_v4_gt_key.

Theorem C13_v4_cmp_total :
  forall a b, wf 32 a -> wf 32 b -> exists l g e, gen_v4_lt a b = Ok l /\ gen_v4_gt a b = Ok g /\ gen_v4_eq a b = Ok e.
Proof. exact v4_cmp_total. Qed.
Print Assumptions C13_v4_cmp_total.

Theorem C13_v4_lt_irrefl :
  forall a, wf 32 a -> gen_v4_lt a a = Ok false.
Proof. exact v4_lt_irrefl. Qed.
Print Assumptions C13_v4_lt_irrefl.

Theorem C13_v4_lt_asym :
  forall a b, wf 32 a -> wf 32 b -> gen_v4_lt a b = Ok true -> gen_v4_lt b a = Ok false.
Proof. exact v4_lt_asym. Qed.
Print Assumptions C13_v4_lt_asym.

Theorem C13_v4_lt_trans :
  forall a b c, wf 32 a -> wf 32 b -> wf 32 c -> gen_v4_lt a b = Ok true -> gen_v4_lt b c = Ok true -> gen_v4_lt a c = Ok true.
Proof. exact v4_lt_trans. Qed.
Print Assumptions C13_v4_lt_trans.

Theorem C13_v4_trichotomy :
  forall a b, wf 32 a -> wf 32 b -> (gen_v4_lt a b = Ok true /\ gen_v4_gt a b = Ok false /\ gen_v4_eq a b = Ok false) \/ (gen_v4_lt a b = Ok false /\ gen_v4_gt a b = Ok true /\ gen_v4_eq a b = Ok false) \/ (gen_v4_lt a b = Ok false /\ gen_v4_gt a b = Ok false /\ gen_v4_eq a b = Ok true).
Proof. exact v4_trichotomy. Qed.
Print Assumptions C13_v4_trichotomy.

Theorem C13_v4_eq_iff :
  forall a b, wf 32 a -> wf 32 b -> gen_v4_eq a b = Ok true <-> addr a = addr b /\ plen a = plen b.
Proof. exact v4_eq_iff. Qed.
Print Assumptions C13_v4_eq_iff.

Theorem C13_v4_ne_is_not_eq :
  forall a b, wf 32 a -> wf 32 b -> (gen_v4_ne a b = Ok true <-> gen_v4_eq a b = Ok false) /\ (gen_v4_ne a b = Ok false <-> gen_v4_eq a b = Ok true).
Proof. exact v4_ne_is_not_eq. Qed.
Print Assumptions C13_v4_ne_is_not_eq.

Theorem C13_v4_gt_is_flipped_lt :
  forall a b, wf 32 a -> wf 32 b -> gen_v4_gt a b = gen_v4_lt b a.
Proof. exact v4_gt_is_flipped_lt. Qed.
Print Assumptions C13_v4_gt_is_flipped_lt.

Theorem C13_v4_longest_match :
  forall a b, wf 32 a -> wf 32 b -> netw 32 a = netw 32 b -> plen a < plen b -> gen_v4_lt a b = Ok true.
Proof. exact v4_longest_match. Qed.
Print Assumptions C13_v4_longest_match.

Theorem C13_v4_add_sub :
  forall a n b, wf 32 a -> gen_v4_add a n = Ok b -> gen_v4_sub b n = Ok a /\ plen b = plen a /\ wf 32 b.
Proof. exact v4_add_sub. Qed.
Print Assumptions C13_v4_add_sub.

Theorem C13_v4_add_raises :
  forall a n, wf 32 a -> (exists e, gen_v4_add a n = Raise e) <-> (addr a + n < 0 \/ 2 ^ 32 <= addr a + n).
Proof. exact v4_add_raises. Qed.
Print Assumptions C13_v4_add_raises.

Theorem C13_v4_sub_raises :
  forall a n, wf 32 a -> (exists e, gen_v4_sub a n = Raise e) <-> (addr a - n < 0 \/ 2 ^ 32 <= addr a - n).
Proof. exact v4_sub_raises. Qed.
Print Assumptions C13_v4_sub_raises.

Theorem C13_v4_add_value :
  forall a n b, wf 32 a -> gen_v4_add a n = Ok b -> addr b = addr a + n /\ plen b = plen a.
Proof. exact v4_add_value. Qed.
Print Assumptions C13_v4_add_value.

Theorem C13_v4_set_plen :
  forall o p o', gen_v4_set_prefixlen o p = Ok o' -> addr o' = addr o /\ plen o' = p /\ 0 <= p <= 32.
Proof. exact v4_set_plen. Qed.
Print Assumptions C13_v4_set_plen.

Theorem C13_v4_set_plen_rejects :
  forall o p, ~ (0 <= p <= 32) -> gen_v4_set_prefixlen o p = Raise E_ValueError.
Proof. exact v4_set_plen_rejects. Qed.
Print Assumptions C13_v4_set_plen_rejects.

Theorem C13_v4_plen_setters_same :
  forall o p, gen_v4_set_masklen o p = gen_v4_set_prefixlen o p /\ gen_v4_set_prefixlength o p = gen_v4_set_prefixlen o p /\ gen_v4_set_masklength o p = gen_v4_set_prefixlen o p.
Proof. exact v4_plen_setters_same. Qed.
Print Assumptions C13_v4_plen_setters_same.

Theorem C13_v4_set_offset :
  forall o k, wf 32 o -> 0 <= k <= hostmask 32 o -> exists o', gen_v4_set_network_offset o k = Ok o' /\ addr o' = netw 32 o + k /\ plen o' = plen o /\ netw 32 o' = netw 32 o /\ wf 32 o'.
Proof. exact v4_set_offset. Qed.
Print Assumptions C13_v4_set_offset.

Theorem C13_v4_set_offset_rejects :
  forall o k, wf 32 o -> ~ (0 <= k <= hostmask 32 o) -> gen_v4_set_network_offset o k = Raise E_AddressValueError.
Proof. exact v4_set_offset_rejects. Qed.
Print Assumptions C13_v4_set_offset_rejects.

Theorem C13_v6_lt_key :
  forall a b, wf 128 a -> wf 128 b -> gen_v6_lt a b = Ok true <-> lexlt 128 a b.
Proof. exact v6_lt_key. Qed.
Print Assumptions C13_v6_lt_key.

Theorem C13_v6_gt_key :
  forall a b, wf 128 a -> wf 128 b -> gen_v6_gt a b = Ok true <-> lexlt 128 b a.
Proof. exact v6_gt_key. Qed.
Print Assumptions C13_v6_gt_key.

Theorem C13_v6_cmp_total :
  forall a b, wf 128 a -> wf 128 b -> exists l g e, gen_v6_lt a b = Ok l /\ gen_v6_gt a b = Ok g /\ gen_v6_eq a b = Ok e.
Proof. exact v6_cmp_total. Qed.
Print Assumptions C13_v6_cmp_total.

Theorem C13_v6_lt_irrefl :
  forall a, wf 128 a -> gen_v6_lt a a = Ok false.
Proof. exact v6_lt_irrefl. Qed.
Print Assumptions C13_v6_lt_irrefl.

Theorem C13_v6_lt_asym :
  forall a b, wf 128 a -> wf 128 b -> gen_v6_lt a b = Ok true -> gen_v6_lt b a = Ok false.
Proof. exact v6_lt_asym. Qed.
Print Assumptions C13_v6_lt_asym.

Theorem C13_v6_lt_trans :
  forall a b c, wf 128 a -> wf 128 b -> wf 128 c -> gen_v6_lt a b = Ok true -> gen_v6_lt b c = Ok true -> gen_v6_lt a c = Ok true.
Proof. exact v6_lt_trans. Qed.
Print Assumptions C13_v6_lt_trans.

Theorem C13_v6_trichotomy :
  forall a b, wf 128 a -> wf 128 b -> (gen_v6_lt a b = Ok true /\ gen_v6_gt a b = Ok false /\ gen_v6_eq a b = Ok false) \/ (gen_v6_lt a b = Ok false /\ gen_v6_gt a b = Ok true /\ gen_v6_eq a b = Ok false) \/ (gen_v6_lt a b = Ok false /\ gen_v6_gt a b = Ok false /\ gen_v6_eq a b = Ok true).
Proof. exact v6_trichotomy. Qed.
Print Assumptions C13_v6_trichotomy.

Theorem C13_v6_eq_iff :
  forall a b, wf 128 a -> wf 128 b -> gen_v6_eq a b = Ok true <-> addr a = addr b /\ plen a = plen b.
Proof. exact v6_eq_iff. Qed.
Print Assumptions C13_v6_eq_iff.

Theorem C13_v6_ne_is_not_eq :
  forall a b, wf 128 a -> wf 128 b -> (gen_v6_ne a b = Ok true <-> gen_v6_eq a b = Ok false) /\ (gen_v6_ne a b = Ok false <-> gen_v6_eq a b = Ok true).
Proof. exact v6_ne_is_not_eq. Qed.
Print Assumptions C13_v6_ne_is_not_eq.

Theorem C13_v6_gt_is_flipped_lt :
  forall a b, wf 128 a -> wf 128 b -> gen_v6_gt a b = gen_v6_lt b a.
Proof. exact v6_gt_is_flipped_lt. Qed.
Print Assumptions C13_v6_gt_is_flipped_lt.

Theorem C13_v6_longest_match :
  forall a b, wf 128 a -> wf 128 b -> netw 128 a = netw 128 b -> plen a < plen b -> gen_v6_lt a b = Ok true.
Proof. exact v6_longest_match. Qed.
Print Assumptions C13_v6_longest_match.

Theorem C13_v6_add_sub :
  forall a n b, wf 128 a -> gen_v6_add a n = Ok b -> gen_v6_sub b n = Ok a /\ plen b = plen a /\ wf 128 b.
Proof. exact v6_add_sub. Qed.
Print Assumptions C13_v6_add_sub.

Theorem C13_v6_add_raises :
  forall a n, wf 128 a -> (exists e, gen_v6_add a n = Raise e) <-> (addr a + n < 0 \/ 2 ^ 128 <= addr a + n).
Proof. exact v6_add_raises. Qed.
Print Assumptions C13_v6_add_raises.

Theorem C13_v6_sub_raises :
  forall a n, wf 128 a -> (exists e, gen_v6_sub a n = Raise e) <-> (addr a - n < 0 \/ 2 ^ 128 <= addr a - n).
Proof. exact v6_sub_raises. Qed.
Print Assumptions C13_v6_sub_raises.

Theorem C13_v6_add_value :
  forall a n b, wf 128 a -> gen_v6_add a n = Ok b -> addr b = addr a + n /\ plen b = plen a.
Proof. exact v6_add_value. Qed.
Print Assumptions C13_v6_add_value.

Theorem C13_v6_set_plen :
  forall o p o', gen_v6_set_prefixlen o p = Ok o' -> addr o' = addr o /\ plen o' = p /\ 0 <= p <= 128.
Proof. exact v6_set_plen. Qed.
Print Assumptions C13_v6_set_plen.

Theorem C13_v6_set_plen_rejects :
  forall o p, ~ (0 <= p <= 128) -> gen_v6_set_prefixlen o p = Raise E_ValueError.
Proof. exact v6_set_plen_rejects. Qed.
Print Assumptions C13_v6_set_plen_rejects.

Theorem C13_v6_plen_setters_same :
  forall o p, gen_v6_set_masklen o p = gen_v6_set_prefixlen o p /\ gen_v6_set_masklength o p = gen_v6_set_prefixlen o p.
Proof. exact v6_plen_setters_same. Qed.
Print Assumptions C13_v6_plen_setters_same.

Theorem C13_v6_set_offset :
  forall o k, wf 128 o -> 0 <= k <= hostmask 128 o -> exists o', gen_v6_set_network_offset o k = Ok o' /\ addr o' = netw 128 o + k /\ plen o' = plen o /\ netw 128 o' = netw 128 o /\ wf 128 o'.
Proof. exact v6_set_offset. Qed.
Print Assumptions C13_v6_set_offset.

Theorem C13_v6_set_offset_rejects :
  forall o k, wf 128 o -> ~ (0 <= k <= hostmask 128 o) -> gen_v6_set_network_offset o k = Raise E_AddressValueError.
Proof. exact v6_set_offset_rejects. Qed.
Print Assumptions C13_v6_set_offset_rejects.

Theorem C13_hash_compat_v4 :
  forall (h : Z -> Z -> Z) a b, wf 32 a -> wf 32 b -> gen_v4_eq a b = Ok true -> h (addr a) (plen a) = h (addr b) (plen b).
Proof. exact hash_compat_v4. Qed.
Print Assumptions C13_hash_compat_v4.

Theorem C13_hash_compat_v6 :
  forall (h : Z -> Z -> Z) a b, wf 128 a -> wf 128 b -> gen_v6_eq a b = Ok true -> h (addr a) (plen a) = h (addr b) (plen b).
Proof. exact hash_compat_v6. Qed.
Print Assumptions C13_hash_compat_v6.
