(* C20 — ASA object-groups and port specs expand to exactly the denoted networks / ports.
   Statements are about Model/Asa.v (lookup tables, network_strings, networks) and Model/L4.v (L4Object), the
   executable models that the correspondence streams tie to /repo; the name tables asa_tcp_ports / asa_udp_ports are
   regenerated from ciscoconfparse2/protocol_values.py on every run (gen/TabC20.v).
   Vocabulary (Proofs/AsaProofs.v, Proofs/L4Proofs.v):
     Flat names gt g l      l is the flattening of g's members in config order: host h -> names.get(h, h);
                            network a m -> names.get(a, a) [ + "/" + m unless m = 255.255.255.255 ];
                            group-object x (x <> g's own name, gt[x] defined) -> the flattening of gt[x]; description -> nothing
     members_ok gt g        g has no unparsable child line and every group-object it names is defined
     rendered lead toks trail   lead ++ " ".join(toks) ++ trail   (lead / trail: white space)
     arg                    ANum n (decimal) | AName s (service name); arg_val looks s up in the table
     utoks o t              ["eq"; t] | [t] | ["neq"; t] | ["lt"; t] | ["gt"; t] *)
From Coq Require Import NArith ZArith List Bool Lia Sorting.Sorted.
Require Import CCP.Lib.PyStr CCP.Lib.Res CCP.Model.Range CCP.Model.Asa CCP.Model.L4 CCP.gen.TabC20
               CCP.Proofs.RangeProofs CCP.Proofs.AsaProofs CCP.Proofs.L4Proofs.
Import ListNotations.
Open Scope Z_scope.

(* ---------------------------------------------------------------- lookup tables: exactly the defined entries *)
(* alias -> address of the LAST `name` line defining the alias; undefined aliases are absent *)
Theorem C20_names_table_exact : forall c alias,
  dict_get (names_table c) alias = option_map fst (find (fun e => str_eqb (snd e) alias) (rev (c_names c))).
Proof. exact names_table_spec. Qed.
Print Assumptions C20_names_table_exact.

(* group name -> the LAST object-group network line with that name *)
Theorem C20_group_table_exact : forall c name,
  dict_get (group_table c) name = find (fun g => str_eqb (g_name g) name) (rev (c_groups c)).
Proof. exact group_table_spec. Qed.
Print Assumptions C20_group_table_exact.

(* access-list name -> ALL its lines in config order; names without a line are absent *)
Theorem C20_acl_table_exact : forall c name,
  dict_get (acl_table c) name =
  match map snd (filter (fun e => str_eqb (fst e) name) (c_acls c)) with [] => None | l => Some l end.
Proof. exact acl_table_spec. Qed.
Print Assumptions C20_acl_table_exact.

(* ---------------------------------------------------------------- group expansion *)
(* whatever network_strings returns (any fuel, any configuration) is the flattening *)
Theorem C20_expand_sound : forall c fuel g l,
  net_strings fuel (names_table c) (group_table c) g = Ok l -> Flat (names_table c) (group_table c) g l.
Proof. intros c fuel g l. apply net_strings_sound. Qed.
Print Assumptions C20_expand_sound.

(* acyclic reference graphs (a rank function decreasing along group-object references): the expansion succeeds with
   any fuel above the rank, returns THE flattening, and the flattening is unique *)
Theorem C20_expand_flatten : forall c (rk : str -> nat) fuel g,
  (forall x g', dict_get (group_table c) x = Some g' ->
     members_ok (group_table c) g' /\ forall y, In (MGroup y) (g_members g') -> (rk y < rk x)%nat) ->
  members_ok (group_table c) g ->
  (forall y, In (MGroup y) (g_members g) -> (rk y < rk (g_name g))%nat) ->
  (rk (g_name g) < fuel)%nat ->
  exists l, net_strings fuel (names_table c) (group_table c) g = Ok l /\
            Flat (names_table c) (group_table c) g l /\
            forall l', Flat (names_table c) (group_table c) g l' -> l' = l.
Proof.
  intros c rk fuel g H M R F.
  apply (expand_flatten (names_table c) (group_table c) rk); auto.
  - apply group_table_names.
  - intros x g' D. apply (H x g' D).
  - intros x g' D. apply (H x g' D).
Qed.
Print Assumptions C20_expand_flatten.

(* ... in particular for the fuel the model uses (number of groups + 1) whenever the ranks fit *)
Theorem C20_expand_flatten_model_fuel : forall c (rk : str -> nat) g,
  (forall x g', dict_get (group_table c) x = Some g' ->
     members_ok (group_table c) g' /\ forall y, In (MGroup y) (g_members g') -> (rk y < rk x)%nat) ->
  members_ok (group_table c) g ->
  (forall y, In (MGroup y) (g_members g) -> (rk y < rk (g_name g))%nat) ->
  (rk (g_name g) <= length (c_groups c))%nat ->
  exists l, network_strings c g = Ok l /\ Flat (names_table c) (group_table c) g l.
Proof.
  intros c rk g H M R F. unfold network_strings.
  destruct (C20_expand_flatten c rk (S (length (c_groups c))) g H M R) as (l & L1 & L2 & _); [lia|].
  exists l. split; assumption.
Qed.
Print Assumptions C20_expand_flatten_model_fuel.

(* self reference, reference to an undefined group, unparsable member: raises for every fuel *)
Theorem C20_expand_bad_member_raises : forall c fuel g,
  (In MOther (g_members g) \/ In (MGroup (g_name g)) (g_members g) \/
   exists x, In (MGroup x) (g_members g) /\ dict_get (group_table c) x = None) ->
  exists e, net_strings fuel (names_table c) (group_table c) g = Raise e.
Proof. intros c fuel g. apply bad_member_raises. Qed.
Print Assumptions C20_expand_bad_member_raises.

(* .networks = map IPv4Obj over network_strings, for ANY behaviour of IPv4Obj and any consistent cache; the cache stays consistent *)
Theorem C20_networks_cache_transparent : forall (obj : Type) (ipv4obj : str -> result obj) strs cache,
  cache_ok obj ipv4obj cache ->
  fst (networks_loop obj ipv4obj cache strs) = map_ipv4 obj ipv4obj strs /\
  cache_ok obj ipv4obj (snd (networks_loop obj ipv4obj cache strs)).
Proof. intros obj ipv4obj strs cache. apply networks_loop_spec. Qed.
Print Assumptions C20_networks_cache_transparent.

(* ---------------------------------------------------------------- port specs *)
(* names_no_operator_collision over the regenerated tables: every service name is non-empty, has no white space, is not a
   number and does not end with eq / lt / gt / range *)
Theorem C20_names_no_operator_collision : tbl_clean asa_tcp_ports = true /\ tbl_clean asa_udp_ports = true.
Proof. split; [exact tcp_table_clean|exact udp_table_clean]. Qed.
Print Assumptions C20_names_no_operator_collision.

(* eq N, N, neq N, lt N, gt N with N a number or a service name of the protocol's table, any surrounding blanks:
   valid  -> exactly the ports of 1..65535 that the operator denotes, ascending;  invalid -> rejected *)
Theorem C20_ports_denote_unary : forall (tcp : bool) o a v lead trail,
  forallb is_space lead = true -> forallb is_space trail = true ->
  arg_val (proto_tbl tcp) a = Some v ->
  (uvalid o v -> l4_object (proto_name tcp) (rendered lead (utoks o (arg_tok a)) trail) s_asa
                 = Ok (filter (udenote o v) (zrange 1 65535))) /\
  (~ uvalid o v -> exists e, l4_object (proto_name tcp) (rendered lead (utoks o (arg_tok a)) trail) s_asa = Raise e).
Proof. exact l4_object_unary. Qed.
Print Assumptions C20_ports_denote_unary.

Theorem C20_ports_denote_range : forall (tcp : bool) a b lo hi lead trail,
  forallb is_space lead = true -> forallb is_space trail = true ->
  arg_val (proto_tbl tcp) a = Some lo -> arg_val (proto_tbl tcp) b = Some hi ->
  (1 <= lo <= hi /\ hi <= 65535 ->
     l4_object (proto_name tcp) (rendered lead [w_range; arg_tok a; arg_tok b] trail) s_asa
     = Ok (filter (fun x => (lo <=? x) && (x <=? hi)) (zrange 1 65535))) /\
  (~ (1 <= lo <= hi /\ hi <= 65535) ->
     exists e, l4_object (proto_name tcp) (rendered lead [w_range; arg_tok a; arg_tok b] trail) s_asa = Raise e).
Proof. exact l4_object_range. Qed.
Print Assumptions C20_ports_denote_range.

(* for EVERY string: an accepted spec yields an ascending duplicate-free list inside 1..65535 *)
Theorem C20_ports_ascending_in_range : forall proto spec syntax l,
  l4_object proto spec syntax = Ok l -> StronglySorted Z.lt l /\ Forall (fun x => 1 <= x <= 65535) l.
Proof. exact l4_object_ok. Qed.
Print Assumptions C20_ports_ascending_in_range.

Theorem C20_ports_other_protocol_rejected : forall proto spec syntax,
  str_eqb syntax s_asa = false \/ (str_eqb proto s_tcp = false /\ str_eqb proto s_udp = false) ->
  l4_object proto spec syntax = Raise E_NotImplementedError.
Proof. exact l4_object_other_protocol. Qed.
Print Assumptions C20_ports_other_protocol_rejected.
