(* C15 — interface names round-trip and sort numerically; interface ranges expand exactly. *)
From Coq Require Import NArith List.
Require Import CCP.Lib.PyStr CCP.Lib.Res CCP.Model.Intf CCP.Proofs.C15Proofs.
Import ListNotations.
Open Scope N_scope.

Theorem C15_range_readers_pure : forall st rs, fst (read_all st rs) = st.
Proof. exact readers_pure. Qed.
Print Assumptions C15_range_readers_pure.
