(* C15 — interface names round-trip and sort numerically; interface ranges expand exactly.
   Statements are about Model/Intf.v (hand model of CiscoIOSInterface / CiscoRange, tied to /repo by the
   correspondence streams of harness/props/c15.py).  Vocabulary (Proofs/C15Proofs.v):
     canon c       = prefix of letters / '-' / inner blanks without blank at either end, class word of
                     letters / '-' (non-empty) when present, and either no slot/card/separator or a slot
                     with separator "/"
     same_shape    = the same components are present (slot, card, sub-interface, channel, class word)
     nums c        = the numeric components present, in the order slot, card, port, sub-interface, channel
     member a b v  = interface b with its iterated component a (port / sub-interface / channel) set to v *)
From Coq Require Import NArith List Bool Sorting.Sorted.
Require Import CCP.Lib.PyStr CCP.Lib.Res CCP.Model.Intf CCP.Proofs.C15Proofs.
Import ListNotations.
Open Scope N_scope.

(* ---------------------------------------------------------------- names *)
(* name_roundtrip: rendering a canonical tuple and parsing it gives the tuple back *)
Theorem C15_name_roundtrip : forall c, canon c -> parse_intf (render c) = Ok c.
Proof. exact name_roundtrip. Qed.
Print Assumptions C15_name_roundtrip.

(* ... also with any run of whitespace between a non-empty prefix and the number (the optional blank) *)
Theorem C15_name_blank : forall c ws,
  canon c -> forallb is_space ws = true -> (ws = [] \/ i_prefix c <> []) ->
  parse_intf (i_prefix c ++ ws ++ tail_str c) = Ok c.
Proof. exact name_blank. Qed.
Print Assumptions C15_name_blank.

(* render_parse_canonical: whatever text parses, its components are canonical and the rendering (the
   canonical name) parses to the same components; re-rendering is a fixed point *)
Theorem C15_render_parse_canonical : forall s c,
  parse_intf s = Ok c -> canon c /\ parse_intf (render c) = Ok c.
Proof. exact render_parse_canonical. Qed.
Print Assumptions C15_render_parse_canonical.

Theorem C15_render_fixed_point : forall s c c',
  parse_intf s = Ok c -> parse_intf (render c) = Ok c' -> c' = c /\ render c' = render c.
Proof. exact render_fixed_point. Qed.
Print Assumptions C15_render_fixed_point.

(* F27 (known finding): a class word holding a digit (l2transport) is not a class word for the parser *)
Theorem C15_class_with_digit_refuted :
  exists c, parse_intf [69; 116; 104; 49; 47; 50; 32; 108; 50; 116; 114; 97; 110; 115; 112; 111; 114; 116] = Ok c /\ i_class c = None.
Proof. exact class_digit_refuted. Qed.
Print Assumptions C15_class_with_digit_refuted.

(* ---------------------------------------------------------------- order, equality, hash *)
(* order_numeric: for interfaces of one shape, < compares the numeric components numerically, position by
   position, and only then the class words *)
Theorem C15_order_numeric : forall a b, same_shape a b ->
  intf_lt a b = Ok (lex_ltb (nums a) (nums b) || (list_eqb N.eqb (nums a) (nums b) && class_ltb (i_class a) (i_class b))).
Proof. exact order_numeric. Qed.
Print Assumptions C15_order_numeric.

Theorem C15_order_numeric_example :
  exists a b, parse_intf [69; 116; 104; 49; 47; 50] = Ok a /\ parse_intf [69; 116; 104; 49; 47; 49; 48] = Ok b /\
              same_shape a b /\ intf_lt a b = Ok true /\ str_ltb (render b) (render a) = true.
Proof. exact order_numeric_example. Qed.
Print Assumptions C15_order_numeric_example.

Theorem C15_gt_is_flipped_lt : forall a b, intf_gt a b = intf_lt b a.
Proof. exact gt_is_flipped_lt. Qed.
Print Assumptions C15_gt_is_flipped_lt.

Theorem C15_lt_trans : forall a b c, same_shape a b -> same_shape b c ->
  intf_lt a b = Ok true -> intf_lt b c = Ok true -> intf_lt a c = Ok true.
Proof. exact lt_trans. Qed.
Print Assumptions C15_lt_trans.

(* order_eq_hash_compat *)
Theorem C15_eq_spec : forall a b,
  intf_eqb a b = true <->
  i_prefix a = i_prefix b /\ i_slot a = i_slot b /\ i_card a = i_card b /\ i_port a = i_port b /\
  i_sub a = i_sub b /\ i_chan a = i_chan b /\ i_class a = i_class b.
Proof. exact intf_eqb_spec. Qed.
Print Assumptions C15_eq_spec.

Theorem C15_eq_hash : forall a b, intf_eqb a b = true -> intf_hash a = intf_hash b.
Proof. exact eq_hash. Qed.
Print Assumptions C15_eq_hash.

Theorem C15_eq_not_lt : forall a b, intf_eqb a b = true -> intf_lt a b = Ok false /\ intf_gt a b = Ok false.
Proof. exact eq_not_lt. Qed.
Print Assumptions C15_eq_not_lt.

Theorem C15_order_eq_hash_compat : forall a b, same_shape a b -> i_prefix a = i_prefix b ->
  (intf_lt a b = Ok true /\ intf_eqb a b = false /\ intf_lt b a = Ok false) \/
  (intf_lt a b = Ok false /\ intf_eqb a b = true /\ intf_lt b a = Ok false) \/
  (intf_lt a b = Ok false /\ intf_eqb a b = false /\ intf_lt b a = Ok true).
Proof. exact trichotomy. Qed.
Print Assumptions C15_order_eq_hash_compat.

(* ---------------------------------------------------------------- ranges *)
(* range_expand_spec: the range text  "<interface>[-<end>],<n>[-<end>],..."  (canonical first interface
   whose port is the last numeric component, no '-' in its prefix, no class word) expands to exactly the
   first interface with its port replaced by every listed value, each once, in ascending order.
   item_vals (a, None) = [a], item_vals (a, Some e) = a..e.  *)
Theorem C15_range_expand_spec : forall base e0 items,
  plain_base base ->
  let vals := item_vals (i_port base, e0) ++ flat_map item_vals items in
  vals <> [] ->
  exists vs, parse_range (range_text base e0 items) = Ok (map (member A_port base) vs) /\
             StronglySorted N.lt vs /\ (forall v, In v vs <-> In v vals).
Proof. exact range_text_spec. Qed.
Print Assumptions C15_range_expand_spec.

(* the same with a trailing class word of letters ("Serial1/0-5,7 multipoint"): every member carries it *)
Theorem C15_range_expand_class_spec : forall base e0 items w,
  plain_base base -> classword w ->
  let vals := item_vals (i_port base, e0) ++ flat_map item_vals items in
  vals <> [] ->
  exists vs, parse_range (range_text_cls base e0 items w) = Ok (map (member A_port (set_class base w)) vs) /\
             StronglySorted N.lt vs /\ (forall v, In v vs <-> In v vals).
Proof. exact range_text_cls_spec. Qed.
Print Assumptions C15_range_expand_class_spec.

(* the expansion stage for ALL bases and ALL token lists (one token per comma-separated part: the interface
   parsed left of '-', the optional end ordinal), whichever component is iterated: the result is the base
   with its iterated component replaced by every listed value, each once, in ascending order.  The guard
   (every part carries the iterated component) is exactly what F20/F28 violate. *)
Theorem C15_range_expand_tokens : forall base toks,
  let a := pick_attr base in
  let vals := flat_map (tok_vals a) toks in
  (forall t, In t toks -> get_attr a (fst t) <> None) ->
  match toks with t0 :: _ => get_attr a (fst t0) = get_attr a base | [] => True end ->
  (vals <> [] ->
     expand base toks = Ok (map (member a base) (sortN (dedupN vals))) /\
     StronglySorted N.lt (sortN (dedupN vals)) /\ (forall v, In v (sortN (dedupN vals)) <-> In v vals)) /\
  (vals = [] -> expand base toks = Raise E_ValueError).
Proof. exact range_expand_spec. Qed.
Print Assumptions C15_range_expand_tokens.

(* tokenisation of one comma-separated part: "<interface>" and "<interface>-<end>" for a canonical
   interface without '-' in its prefix / class word (the guard that F28 violates); bare numbers are the
   special case of an empty prefix *)
Theorem C15_part_token_single : forall c, canon c -> dash_free c -> part_token (render c) = Ok (c, None).
Proof. exact part_token_single. Qed.
Print Assumptions C15_part_token_single.

Theorem C15_part_token_range : forall c e, canon c -> dash_free c ->
  part_token (render c ++ c_dash :: render_dec e) = Ok (c, Some e).
Proof. exact part_token_range. Qed.
Print Assumptions C15_part_token_range.

Theorem C15_part_token_bare : forall n e,
  part_token (render_dec n) = Ok (bare n, None) /\ part_token (render_dec n ++ c_dash :: render_dec e) = Ok (bare n, Some e).
Proof. intros n e. split; [apply part_token_bare|apply part_token_bare_range]. Qed.
Print Assumptions C15_part_token_bare.

(* for the usual case (the port is iterated) no guard is needed *)
Theorem C15_range_expand_port : forall base toks,
  pick_attr base = A_port ->
  match toks with t0 :: _ => i_port (fst t0) = i_port base | [] => True end ->
  flat_map (tok_vals A_port) toks <> [] ->
  exists vs, expand base toks = Ok (map (member A_port base) vs) /\ StronglySorted N.lt vs /\
             (forall v, In v vs <-> In v (flat_map (tok_vals A_port) toks)).
Proof. exact range_expand_port. Qed.
Print Assumptions C15_range_expand_port.

(* F20/F28 (known findings): the guard fails for channel / sub-interface ranges with a later bare part,
   and a '-' inside the prefix breaks the split *)
Theorem C15_range_channel_refuted :
  parse_range [83; 101; 114; 105; 97; 108; 49; 47; 48; 58; 49; 45; 51; 44; 55] = Raise E_TypeError.
Proof. exact range_channel_refuted. Qed.
Print Assumptions C15_range_channel_refuted.

Theorem C15_range_dash_prefix_refuted :
  parse_range [80; 111; 114; 116; 45; 99; 104; 97; 110; 110; 101; 108; 49; 44; 51] = Raise E_Other.
Proof. exact range_dash_prefix_refuted. Qed.
Print Assumptions C15_range_dash_prefix_refuted.

(* range_readers_pure: any sequence of read accessors leaves the range unchanged, and every output is the
   one the accessor gives on the initial range *)
Theorem C15_range_readers_pure : forall st rs,
  fst (read_all st rs) = st /\ snd (read_all st rs) = map (fun r => snd (read st r)) rs.
Proof. exact readers_pure. Qed.
Print Assumptions C15_range_readers_pure.

(* as_list() of an expanded range lists the members in the order of iteration *)
Theorem C15_as_list_agrees : forall a base vs,
  StronglySorted N.lt vs -> vs <> [] ->
  read (map (member a base) vs) R_as_list = (map (member a base) vs, O_list (map render (map (member a base) vs))).
Proof. exact as_list_agrees. Qed.
Print Assumptions C15_as_list_agrees.
