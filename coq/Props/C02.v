(* C02 -- parent/child links follow the indentation rule.  bootstrap_parents / bootstrap_children model ConfigList.bootstrap's cache-based pass (Model/Links.v); spec_parents / spec_children are the rule of the property (nearest preceding configuration line with strictly smaller indentation; unindented lines are roots; a comment directly below a deeper line stays unattached), characterised by nearest_spec.  All statements hold for every list of lines (no bound on length, indentation or interleaving). *)
From Coq Require Import List Arith Bool. Require Import CCP.Lib.PyStr CCP.Model.Links CCP.Proofs.LinksProofs. Import ListNotations.

Theorem C02_links_parent :
  forall ls, bootstrap_parents ls = spec_parents ls.
Proof. exact links_parent. Qed.
Print Assumptions C02_links_parent.

Theorem C02_links_children :
  forall ls p, bootstrap_children ls p = spec_children ls p.
Proof. exact links_children. Qed.
Print Assumptions C02_links_children.

Theorem C02_nearest_spec :
  forall seen k j, nearest seen k = Some j <-> (j < length seen /\ exists l, nth_error (rev seen) j = Some l /\ cfg l = true /\ ind l < k /\ forall j' l', j < j' -> nth_error (rev seen) j' = Some l' -> ~ (cfg l' = true /\ ind l' < k)).
Proof. exact nearest_spec. Qed.
Print Assumptions C02_nearest_spec.

Theorem C02_spec_root_unindented :
  forall seen l, ind l = 0 -> spec_parent seen l = None.
Proof. exact spec_root_unindented. Qed.
Print Assumptions C02_spec_root_unindented.

Theorem C02_spec_comment_exception :
  forall seen l, cmt l = true -> ind l < hd_ind seen -> spec_parent seen l = None.
Proof. exact spec_comment_exception. Qed.
Print Assumptions C02_spec_comment_exception.

Theorem C02_spec_indented :
  forall seen l, 0 < ind l -> (cmt l && (ind l <? hd_ind seen)) = false -> spec_parent seen l = nearest seen (ind l).
Proof. exact spec_indented. Qed.
Print Assumptions C02_spec_indented.

Theorem C02_links_depend_on_linfo_only :
  forall (d1 d2 : list char) (t1 t2 : list str), map (linfo_of d1) t1 = map (linfo_of d2) t2 -> bootstrap_parents (map (linfo_of d1) t1) = bootstrap_parents (map (linfo_of d2) t2).
Proof. exact links_depend_on_linfo_only. Qed.
Print Assumptions C02_links_depend_on_linfo_only.

Theorem C02_parent_before_child :
  forall ls i p, nth_error (bootstrap_parents ls) i = Some (Some p) -> p < i.
Proof. exact parent_before_child. Qed.
Print Assumptions C02_parent_before_child.
