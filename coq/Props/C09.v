(* C09 — All input forms are equivalent and file save/load is the identity.

   Model: Model/IO.v (read_input = CiscoConfParse.read_config + the list/tuple test that follows it,
   load = read_config_file under openargs, save = save_as after fix F10).  get_text() of a parsed line
   list is that list (property C01; re-observed by the correspondence on every case).
   A config is a list of (line, line end) pairs; text_of concatenates them, lines_of drops the ends. *)
From Coq Require Import NArith List Bool Arith.
Require Import CCP.Lib.PyStr CCP.Lib.Res CCP.gen.TabC09 CCP.Model.IO CCP.Proofs.C09Proofs.
Import ListNotations.

(* what the proofs use of the str.splitlines boundary table of the running interpreter (gen/TabC09.v) *)
Theorem C09_tables_as_modelled : is_linebreak LF = true /\ is_linebreak CR = true.
Proof. exact tables_as_modelled. Qed.
Print Assumptions C09_tables_as_modelled.

(* ---- forms_agree: list = tuple = multi-line string (every line ended by LF or CRLF, independently);
   the final line end does not start another line *)
Theorem C09_forms_agree : forall fs pairs,
  Forall (fun p => no_break (fst p) = true /\ is_lf_or_crlf (snd p) = true) pairs -> 2 <= length pairs ->
  read_input fs (InList (lines_of pairs)) = Ok (lines_of pairs)
  /\ read_input fs (InTuple (lines_of pairs)) = Ok (lines_of pairs)
  /\ read_input fs (InStr (text_of pairs)) = Ok (lines_of pairs).
Proof. exact forms_agree. Qed.
Print Assumptions C09_forms_agree.
Example C09_forms_agree_ex :
  let pairs := [([104; 111; 115; 116]%N, [CR; LF]); ([32; 98]%N, [LF]); ([], [LF]); ([233; 8364]%N, [CR; LF])] in
  Forall (fun p => no_break (fst p) = true /\ is_lf_or_crlf (snd p) = true) pairs /\ 2 <= length pairs
  /\ read_input (fun _ => None) (InStr (text_of pairs)) = Ok [[104; 111; 115; 116]; [32; 98]; []; [233; 8364]]%N.
Proof. repeat split; repeat constructor. Qed.

(* ... and the string may also lack the final line end (then its last line is not empty) *)
Theorem C09_forms_agree_nofinal : forall fs pairs l,
  Forall (fun p => no_break (fst p) = true /\ is_lf_or_crlf (snd p) = true) pairs ->
  no_break l = true -> l <> [] -> 1 <= length pairs ->
  read_input fs (InList (lines_of pairs ++ [l])) = Ok (lines_of pairs ++ [l])
  /\ read_input fs (InTuple (lines_of pairs ++ [l])) = Ok (lines_of pairs ++ [l])
  /\ read_input fs (InStr (text_of pairs ++ l)) = Ok (lines_of pairs ++ [l]).
Proof. exact forms_agree_nofinal. Qed.
Print Assumptions C09_forms_agree_nofinal.
Example C09_forms_agree_nofinal_ex :
  read_input (fun _ => None) (InStr (text_of [([97]%N, [CR; LF]); ([], [LF])] ++ [32; 99]%N)) = Ok [[97]; []; [32; 99]]%N.
Proof. reflexivity. Qed.

(* ---- file_is_split: a str that is one line is a path; the file's text is split at its line ends
   (LF, CRLF, lone CR): spec_lines = split at LF after universal-newline translation *)
Theorem C09_file_is_split : forall fs p content,
  (exists x, splitlines_py p = [x]) -> fs p = Some content ->
  read_input fs (InStr p) = Ok (spec_lines content).
Proof. exact file_is_split. Qed.
Print Assumptions C09_file_is_split.
(* in terms of lines: a file of LF/CRLF-terminated lines yields the lines and one empty element for the
   text after the final line end (pinned by the repo's test suite); without final line end, the lines *)
Theorem C09_file_form : forall fs p pairs,
  (exists x, splitlines_py p = [x]) -> fs p = Some (text_of pairs) ->
  Forall (fun p => no_crlf (fst p) = true /\ is_lf_or_crlf (snd p) = true) pairs ->
  read_input fs (InStr p) = Ok (lines_of pairs ++ [[]]).
Proof. exact file_form. Qed.
Print Assumptions C09_file_form.
Theorem C09_file_form_nofinal : forall fs p pairs l,
  (exists x, splitlines_py p = [x]) -> fs p = Some (text_of pairs ++ l) ->
  Forall (fun p => no_crlf (fst p) = true /\ is_lf_or_crlf (snd p) = true) pairs -> no_crlf l = true ->
  read_input fs (InStr p) = Ok (lines_of pairs ++ [l]).
Proof. exact file_form_nofinal. Qed.
Print Assumptions C09_file_form_nofinal.
Example C09_file_form_ex :
  let fs := fun p : str => if str_eqb p [47; 120]%N then Some (text_of [([97]%N, [CR; LF]); ([11; 98]%N, [LF])]) else None in
  read_input fs (InStr [47; 120]%N) = Ok [[97]; [11; 98]; []]%N /\ (exists x, splitlines_py [47; 120]%N = [x]).
Proof. split; [reflexivity | eexists; reflexivity]. Qed.

(* ---- the string form and the file form of the SAME text: equal up to the element after the final
   line end, for every text without VT FF FS GS RS NEL LS PS (no other hypothesis: lone CR, CR runs,
   missing final line end, blank lines are all covered) *)
Theorem C09_str_form_is_file_form : forall fs s,
  no_exotic s = true -> 2 <= length (splitlines_py s) ->
  read_input fs (InStr s) = Ok (drop_last_empty (spec_lines s)).
Proof. exact str_form_is_file_form. Qed.
Print Assumptions C09_str_form_is_file_form.
Example C09_str_form_is_file_form_ex :
  no_exotic [97; 13; 13; 10; 98; 10; 10]%N = true /\ 2 <= length (splitlines_py [97; 13; 13; 10; 98; 10; 10]%N).
Proof. split; [reflexivity | vm_compute; repeat constructor]. Qed.

(* F11 (known finding): the guard of the previous theorem cannot be dropped: 'a\x0bb\nc' *)
Theorem C09_splitlines_extra_refuted :
  exists s, 2 <= length (splitlines_py s) /\ splitlines_py s <> drop_last_empty (spec_lines s).
Proof. exact splitlines_extra_refuted. Qed.
Print Assumptions C09_splitlines_extra_refuted.

(* ---- cycle_stable: for EVERY file content (any code points, any mix of line ends), from the first
   save on every further load/save cycle writes the same text and reads the same lines *)
Theorem C09_cycle_stable : forall content,
  let b1 := save (load content) in
  (forall n, cycles n b1 = b1) /\ (forall n, load (cycles n b1) = load b1) /\ load (save (load b1)) = load b1.
Proof. exact cycle_stable. Qed.
Print Assumptions C09_cycle_stable.
Example C09_cycle_stable_ex :
  let content := [97; 13; 10; 32; 98; 13; 13; 10; 10; 233]%N in
  load content = [[97]; [32; 98]; []; []; [233]]%N /\ save (load content) = [97; 10; 32; 98; 10; 10; 10; 233; 10]%N
  /\ load (save (load content)) = [[97]; [32; 98]; []; []; [233]; []]%N
  /\ cycles 5 (save (load content)) = save (load content).
Proof. repeat split; reflexivity. Qed.

(* the same when the first save is of a list / tuple / string input (lines without CR / LF) *)
Theorem C09_cycle_stable_list : forall ls, Forall (fun l => no_crlf l = true) ls ->
  let b1 := save ls in
  (forall n, cycles n b1 = b1) /\ (forall n, load (cycles n b1) = drop_last_empty ls ++ [[]]).
Proof. exact cycle_stable_list. Qed.
Print Assumptions C09_cycle_stable_list.
Example C09_cycle_stable_list_ex :
  Forall (fun l => no_crlf l = true) [[97]; []; [98]; []; []]%N /\ save [[97]; []; [98]; []; []]%N = [97; 10; 10; 98; 10; 10]%N.
Proof. split; [repeat constructor | reflexivity]. Qed.

(* so a config file neither grows nor shrinks *)
Theorem C09_cycle_length : forall content n,
  length (cycles n (save (load content))) = length (save (load content)).
Proof. exact cycle_length. Qed.
Print Assumptions C09_cycle_length.

(* what a re-load returns: the saved lines and the empty text after the final newline *)
Theorem C09_load_save : forall ls, Forall (fun l => no_crlf l = true) ls ->
  load (save ls) = drop_last_empty ls ++ [[]] /\ save (load (save ls)) = save ls.
Proof. intros ls H. split; [apply load_save | apply save_load_save]; exact H. Qed.
Print Assumptions C09_load_save.

(* every loaded line is free of CR and LF (so the list hypotheses above hold for anything read from a file) *)
Theorem C09_load_lines_clean : forall content, Forall (fun l => no_crlf l = true) (load content).
Proof. exact load_lines_clean. Qed.
Print Assumptions C09_load_lines_clean.
