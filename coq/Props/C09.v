(* C09 — All input forms are equivalent and file save/load is the identity. *)
From Coq Require Import NArith List Bool.
Require Import CCP.Lib.PyStr CCP.Lib.Res CCP.gen.TabC09 CCP.Model.IO CCP.Proofs.C09Proofs.
Import ListNotations.

Theorem C09_tables_as_modelled :
  linesplit_rgx_src = [92; 114; 42; 92; 110]%N /\ save_newline_src = [LF] /\ openargs_newline_none = true
  /\ is_linebreak LF = true /\ is_linebreak CR = true.
Proof. exact tables_as_modelled. Qed.
Print Assumptions C09_tables_as_modelled.
