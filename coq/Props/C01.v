(* C01 -- parsing an indentation-style config is total and lossless.  construct_texts / construct_linenums model CiscoConfParse(...) = ConfigList.bootstrap followed by commit() (Model/Parse.v); keep_flags is the blank_line_keep marking of the banner and macro passes; survives l k = the line is not blank or is kept.  oracle_ok is the only assumption on the banner regexes (a blank line is not a banner start, a delimiter is not a space), checked on every correspondence case.  scan_is_walks: the model's single forward scan marks and re-parents exactly what the code's per-start forward walks do (reachB / reachM / Spec in Proofs/ScanSpecProofs.v). *)
From Coq Require Import List Arith Bool NArith. Require Import CCP.Lib.PyStr CCP.Model.Links CCP.Model.Parse CCP.Proofs.ParseProofs CCP.Proofs.ScanSpecProofs. Import ListNotations.

Theorem C01_oracle_okb_ok :
  forall l, oracle_okb l = true -> oracle_ok l.
Proof. exact oracle_okb_ok. Qed.
Print Assumptions C01_oracle_okb_ok.

Theorem C01_ibl_filter_idempotent :
  forall o ls, Forall oracle_ok ls -> ibl_filter o (ibl_filter o ls) = ibl_filter o ls.
Proof. exact ibl_filter_idempotent. Qed.
Print Assumptions C01_ibl_filter_idempotent.

Theorem C01_parse_lossless :
  forall o ls, o_ibl o = false -> construct_texts o ls = ls.
Proof. exact parse_lossless. Qed.
Print Assumptions C01_parse_lossless.

Theorem C01_parse_lossless_ibl :
  forall o ls, Forall oracle_ok ls -> o_ibl o = true -> construct_texts o ls = filter2 ls (surv ls (keep_flags o ls)).
Proof. exact parse_lossless_ibl. Qed.
Print Assumptions C01_parse_lossless_ibl.

Theorem C01_removed_only_blank_outside :
  forall l k, survives l k = false -> blank (ptext l) = true /\ k = false.
Proof. exact removed_only_blank_outside. Qed.
Print Assumptions C01_removed_only_blank_outside.

Theorem C01_linenum_seq :
  forall o ls, Forall oracle_ok ls -> construct_linenums o ls = seq 0 (length (construct_texts o ls)).
Proof. exact linenum_seq. Qed.
Print Assumptions C01_linenum_seq.

Theorem C01_commit_idempotent :
  forall o ls, Forall oracle_ok ls -> construct_texts o (construct_texts o ls) = construct_texts o ls.
Proof. exact commit_idempotent. Qed.
Print Assumptions C01_commit_idempotent.

Theorem C01_scan_is_walks :
  forall macro ls j out, nth_error (scan macro idle 0 ls) j = Some out -> Spec macro ls j out.
Proof. exact scan_is_walks. Qed.
Print Assumptions C01_scan_is_walks.
