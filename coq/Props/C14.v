(* C14 — placeholder while the correspondence is brought up; replaced by the real theorems. *)
From Coq Require Import ZArith List.
Require Import CCP.Model.Range.
Import ListNotations.
Open Scope Z_scope.
Theorem C14_placeholder : runs [1;2;3;7] = [(1,3);(7,7)].
Proof. reflexivity. Qed.
Print Assumptions C14_placeholder.
