(* C14 — Integer range strings expand to the denoted set and compress back canonically.
   Statements are about Model/Range.v, the executable model of CiscoRange(text, result_type=int)
   (constructor + parse_integers on the actual string, accessors, append, remove), which the correspondence
   stream ties to /repo after the constructor and after every call.
   Vocabulary (Proofs/RangeProofs.v):
     part            one comma-separated item: PSingle ws n ws' | PRange ws a ws' ws'' b ws''' (ws* = blanks)
     part_ok         every ws is a list of white-space characters (str.isspace)
     render_text ps  the parts rendered in decimal with their blanks and joined by ","
     part_lo/part_hi the bounds of the closed interval a part denotes
     runs l          the maximal segments x, x+1, x+2, ... of l as (first, last)
     render_run      "a" | "a,b" | "a-b" for a run of length 1 | 2 | >= 3
     sep rs          consecutive runs (a,b), (c,d) satisfy b + 1 < c
     step st op      one call (len / iter / as_list / as_set / as_compressed_str / in / append / remove) *)
From Coq Require Import NArith ZArith List Sorting.Sorted.
Require Import CCP.Lib.PyStr CCP.Lib.Res CCP.Model.Range CCP.Proofs.RangeProofs.
Import ListNotations.
Open Scope Z_scope.

(* any order, overlaps, duplicates, embedded blanks, numbers without bound *)
Theorem C14_expand_spec : forall ps, ps <> [] -> Forall part_ok ps ->
  exists l, ctor (render_text ps) = Ok l /\ StronglySorted Z.lt l /\
            forall x, In x l <-> exists p, In p ps /\ part_lo p <= x <= part_hi p.
Proof. exact expand_spec. Qed.
Print Assumptions C14_expand_spec.

Theorem C14_expand_empty : ctor [] = Ok [].
Proof. exact ctor_empty. Qed.
Print Assumptions C14_expand_empty.

(* in every state reachable from any text by any calls the data is ascending and duplicate-free, and
   iteration, as_list, (sorted) as_set return exactly the data, len its length *)
Theorem C14_ordered_views_ascending : forall text st0 ops, ctor text = Ok st0 ->
  let st := final_state st0 ops in
  StronglySorted Z.lt st /\ snd (step st OIter) = VList st /\ snd (step st OList) = VList st /\
  snd (step st OSet) = VList st /\ snd (step st OLen) = VInt (Z.of_nat (length st)).
Proof. exact ordered_views. Qed.
Print Assumptions C14_ordered_views_ascending.

Theorem C14_contains_spec : forall v st, snd (step st (OContains v)) = VBool true <-> In v st.
Proof. exact contains_spec. Qed.
Print Assumptions C14_contains_spec.

(* canonical form: ascending maximal runs, a-b iff the run has three or more values, a,b for two *)
Theorem C14_compress_canonical : forall st, StronglySorted Z.lt st ->
  snd (as_compressed_str st) = join [comma] (map render_run (runs st)) /\
  flat_map (fun r => zrange (fst r) (snd r)) (runs st) = st /\
  Forall (fun r => fst r <= snd r) (runs st) /\ sep (runs st).
Proof.
  intros st S. split; [apply (compress_canonical_str st S)|].
  split; [apply runs_decode|]. split; [apply runs_wf|apply runs_sep; exact S].
Qed.
Print Assumptions C14_compress_canonical.

Theorem C14_compress_expand : forall st, StronglySorted Z.lt st -> Forall (fun x => 0 <= x) st ->
  ctor (snd (as_compressed_str st)) = Ok st.
Proof. exact compress_expand. Qed.
Print Assumptions C14_compress_expand.

Theorem C14_append_spec : forall v st, StronglySorted Z.lt st ->
  (In v st -> append v st = None) /\
  (~ In v st -> exists st', append v st = Some st' /\ StronglySorted Z.lt st' /\ forall x, In x st' <-> x = v \/ In x st).
Proof. exact append_spec. Qed.
Print Assumptions C14_append_spec.

Theorem C14_remove_spec : forall v st, StronglySorted Z.lt st ->
  (~ In v st -> remove v st = None) /\
  (In v st -> exists st', remove v st = Some st' /\ StronglySorted Z.lt st' /\ forall x, In x st' <-> In x st /\ x <> v).
Proof. exact remove_spec. Qed.
Print Assumptions C14_remove_spec.

(* reading never changes a range: the final state AND every intermediate state of any reader sequence *)
Theorem C14_readers_pure : forall ops st, Forall (fun o => is_reader o = true) ops ->
  final_state st ops = st /\ Forall (fun p => fst p = st) (run_ops st ops).
Proof. intros ops st H. split; [apply readers_pure; exact H|apply readers_trace; exact H]. Qed.
Print Assumptions C14_readers_pure.

(* the encoding used to transport observed lists in the correspondence cannot hide a difference *)
Theorem C14_runs_injective : forall l1 l2, runs l1 = runs l2 -> l1 = l2.
Proof. exact runs_injective. Qed.
Print Assumptions C14_runs_injective.
