(* C08 — Brace-delimited configs become an indentation tree that mirrors the nesting. *)
From Coq Require Import NArith List Bool Arith.
Require Import CCP.Lib.PyStr CCP.Lib.Res CCP.gen.TabC08 CCP.Model.Brace CCP.Proofs.C08Proofs.
Import ListNotations.

Theorem C08_tables_as_modelled :
  forallb (fun c => Bool.eqb (is_printable c) (existsb (N.eqb c) pp_printables)) (map N.of_nat (seq 0 300)) = true
  /\ forallb (fun c => N.ltb c 300) pp_printables = true
  /\ forallb (fun c => Bool.eqb (is_pp_white c) (existsb (N.eqb c) pp_white_chars)) (map N.of_nat (seq 0 300)) = true
  /\ forallb (fun c => N.ltb c 300) pp_white_chars = true
  /\ brace_stop_width = 4 /\ convert_stop_width = 4
  /\ brace_exclude_chars = [LBRACE; RBRACE] /\ brace_white_arg = [SP] /\ brace_opener = [LBRACE] /\ brace_closer = [RBRACE]
  /\ junos_comment_delims = [[HASH]].
Proof. exact tables_as_modelled. Qed.
Print Assumptions C08_tables_as_modelled.
