(* C08 — Brace-delimited configs become an indentation tree that mirrors the nesting.

   Model: Model/Brace.v.  brace_lines sw txt = the line texts BraceParse(txt, stop_width = sw) produces
   (incl. the scanner that pyparsing's nested_expr amounts to); convert_junos sw lines =
   convert_junos_to_ios(lines), which is what CiscoConfParse(lines, syntax='junos') parses afterwards;
   parents_model = the parent rule of ConfigList.bootstrap (property C02) on (indent, is_config_line,
   is_comment) triples, line_info computes the triple of a text.

   Spec: a statement tree (tree / forest), flatten_forest = one line per statement in source order,
   indented sw spaces per enclosing block; forest_parents = the index of the statement that opened the
   innermost enclosing block (the line itself at top level; a comment directly below a more indented
   line keeps itself, C02's documented exception).  A layout (ltree / lforest) is the tree decorated
   with ALL the white space, semicolons and braces of one rendering:
     LLeaf pre text trail semi trail2 term    renders as  pre text trail [;] trail2 term
     LBlock pre text gap kids pre_close closed             pre text gap { kids pre_close [}]
   wfT_lforest: pre / gap / pre_close are arbitrary strings over space, TAB, LF, CR (so: any indent
   width, tab or space indentation, brace on the same or on the next line, blank lines, one-line
   blocks); trail / trail2 are spaces and tabs; term starts with a line break, or is empty for the last
   statement before a closing brace / the end of the text; text is a statement text (wf_text: printable
   ASCII without braces plus spaces, not starting with a space or quote, not ending with a space or
   semicolon; comment lines are statements starting with '#'). *)
From Coq Require Import NArith List Bool Arith.
Require Import CCP.Lib.PyStr CCP.Lib.Res CCP.gen.TabC08 CCP.Model.Brace CCP.Proofs.C08Proofs CCP.Proofs.C08LinksProofs.
Require CCP.Model.Links.
Import ListNotations.

Theorem C08_tables_as_modelled :
  forallb (fun c => Bool.eqb (is_printable c) (existsb (N.eqb c) pp_printables)) (map N.of_nat (seq 0 300)) = true
  /\ forallb (fun c => N.ltb c 300) pp_printables = true
  /\ forallb (fun c => Bool.eqb (is_pp_white c) (existsb (N.eqb c) pp_white_chars)) (map N.of_nat (seq 0 300)) = true
  /\ forallb (fun c => N.ltb c 300) pp_white_chars = true
  /\ brace_stop_width = 4 /\ convert_stop_width = 4 /\ junos_comment_delims = [[HASH]].
Proof. exact tables_as_modelled. Qed.
Print Assumptions C08_tables_as_modelled.

(* ---- brace_roundtrip: every complete rendering of every statement tree parses to the flattened tree:
   one line per statement, source order, text preserved, sw spaces per enclosing block, nothing for "}" *)
Theorem C08_brace_roundtrip : forall sw top fin,
  wfT_lforest true top = true -> all_ws4 fin = true -> unclosed_forest top = 0 ->
  brace_lines sw (render_forest top ++ fin) = Ok (flatten_forest sw 0 (erase_forest top)).
Proof. exact brace_roundtripT. Qed.
Print Assumptions C08_brace_roundtrip.

(* the same as convert_junos_to_ios sees it (a non-empty list of lines joined by LF), at the source's stop_width *)
Theorem C08_convert_roundtrip : forall lines top fin,
  lines <> [] -> join [NL] lines = render_forest top ++ fin ->
  wfT_lforest true top = true -> all_ws4 fin = true -> unclosed_forest top = 0 ->
  convert_junos convert_stop_width lines = Ok (flatten_forest 4 0 (erase_forest top)).
Proof.
  intros lines top fin Hne E Hwf Hfin Hu. unfold convert_junos. destruct lines as [|l ls]; [congruence|].
  rewrite E. apply (brace_roundtripT 4); assumption.
Qed.
Print Assumptions C08_convert_roundtrip.

(*  a { b "x y" ;          -- K&R + trailing spaces; Allman; one-line block; blank line; comment line
      c
      {
        d; }
      # note

      e { f }
    }
    g;                                                                                            *)
Definition ex_layout : lforest :=
  LCons (LBlock [] [97]%N [32]%N
           (LCons (LLeaf [32]%N [98; 32; 34; 120; 32; 121; 34]%N [32]%N true [32; 32]%N [10]%N)
           (LCons (LBlock [32; 32]%N [99]%N [10; 32; 32]%N
                     (LCons (LLeaf [10; 32; 32; 32; 32]%N [100]%N [] true [] []) LNil) [32]%N true)
           (LCons (LLeaf [10; 32; 32]%N [35; 32; 110; 111; 116; 101]%N [] false [] [10; 10]%N)
           (LCons (LBlock [32; 32]%N [101]%N [32]%N (LCons (LLeaf [32]%N [102]%N [] false [] []) LNil) [32]%N true)
            LNil))))
           [10]%N true)
  (LCons (LLeaf [13; 10]%N [103]%N [] true [] []) LNil).
Example C08_brace_roundtrip_ex :
  wfT_lforest true ex_layout = true /\ unclosed_forest ex_layout = 0
  /\ brace_lines 4 (render_forest ex_layout ++ [10]%N)
     = Ok [[97]; [32; 32; 32; 32; 98; 32; 34; 120; 32; 121; 34]; [32; 32; 32; 32; 99];
           [32; 32; 32; 32; 32; 32; 32; 32; 100]; [32; 32; 32; 32; 35; 32; 110; 111; 116; 101];
           [32; 32; 32; 32; 101]; [32; 32; 32; 32; 32; 32; 32; 32; 102]; [103]]%N.
Proof. repeat split; vm_compute; reflexivity. Qed.

(* a tab-indented rendering:  a {<LF><TAB>b<TAB>;<LF>} *)
Example C08_brace_roundtrip_tab_ex :
  let l := LCons (LBlock [] [97]%N [32]%N (LCons (LLeaf [10; 9]%N [98]%N [9]%N true [] [10]%N) LNil) [] true) LNil in
  wfT_lforest true l = true /\ wf_lforest true l = false /\ brace_lines 4 (render_forest l) = Ok [[97]; [32; 32; 32; 32; 98]]%N.
Proof. repeat split; vm_compute; reflexivity. Qed.

(* ---- brace_unclosed_raises: if ANY closing brace of a rendering is missing the parser raises *)
Theorem C08_brace_unclosed_raises : forall sw top fin,
  wfT_lforest true top = true -> all_ws4 fin = true -> 0 < unclosed_forest top ->
  brace_lines sw (render_forest top ++ fin) = Raise E_ParseException.
Proof. exact brace_unclosed_raisesT. Qed.
Print Assumptions C08_brace_unclosed_raises.
Theorem C08_convert_unclosed_raises : forall lines top fin,
  lines <> [] -> join [NL] lines = render_forest top ++ fin ->
  wfT_lforest true top = true -> all_ws4 fin = true -> 0 < unclosed_forest top ->
  convert_junos convert_stop_width lines = Raise E_ParseException.
Proof.
  intros lines top fin Hne E Hwf Hfin Hu. unfold convert_junos. destruct lines as [|l ls]; [congruence|].
  rewrite E. apply brace_unclosed_raisesT; assumption.
Qed.
Print Assumptions C08_convert_unclosed_raises.
Example C08_brace_unclosed_raises_ex :
  let l := LCons (LBlock [] [97]%N [32]%N (LCons (LBlock [10; 32]%N [98]%N [32]%N (LCons (LLeaf [32]%N [99]%N [] true [] [10]%N) LNil) [] false)
                                           (LCons (LLeaf [32]%N [100]%N [] true [] [10]%N) LNil)) [] true) LNil in
  wfT_lforest true l = true /\ 0 < unclosed_forest l /\ brace_lines 4 (render_forest l) = Raise E_ParseException.
Proof. repeat split; vm_compute; repeat constructor. Qed.

(* ---- brace_parents: the parent rule of the ordinary bootstrap, applied to the lines the brace parser
   returns, gives for every line the statement that opened its innermost enclosing block *)
Theorem C08_brace_parents : forall sw, 0 < sw -> forall f, wf_forest f = true ->
  parents_model (map (line_info [HASH]) (flatten_forest sw 0 f)) = forest_parents None false 0 f.
Proof. exact brace_parents. Qed.
Print Assumptions C08_brace_parents.
Example C08_brace_parents_ex :
  wf_forest (erase_forest ex_layout) = true
  /\ forest_parents None false 0 (erase_forest ex_layout) = [0; 0; 0; 2; 4; 0; 5; 7].
Proof. split; vm_compute; reflexivity. Qed.

(* the same about the specification of property C02 itself (Model/Links.v: spec_parents, linfo_of): with
   C02_links_parent (bootstrap_parents = spec_parents) this is a statement about the cache-based loop *)
Theorem C08_brace_parents_c02 : forall sw f, 0 < sw -> wf_forest f = true ->
  self_or 0 (Links.spec_parents (map (Links.linfo_of [HASH]) (flatten_forest sw 0 f))) = forest_parents None false 0 f.
Proof. exact brace_parents_c02. Qed.
Print Assumptions C08_brace_parents_c02.

(* the indentation of the result is monotone in the nesting depth: all lines of a forest at depth d are
   indented at least d * sw (with equality for its roots) — the form in which this composes with C02 *)
Theorem C08_flatten_indents : forall sw, 0 < sw -> forall f d, wf_forest f = true ->
  Forall (fun y => d * sw <= fst (fst y)) (map (line_info [HASH]) (flatten_forest sw d f)).
Proof. exact flatten_indents. Qed.
Print Assumptions C08_flatten_indents.

(* ---- the general statement behind both results: scanning a layout in the middle of a text *)
Theorem C08_brace_lines_layout : forall sw top fin, wfT_lforest true top = true -> all_ws4 fin = true ->
  brace_lines sw (render_forest top ++ fin)
  = match unclosed_forest top with
    | O => Ok (lines_forest sw 0 top)
    | S _ => Raise E_ParseException
    end.
Proof.
  intros sw top fin H1 H2. rewrite brace_lines_layoutT by assumption.
  destruct (unclosed_forest top); [unfold prepend; cbn; rewrite app_nil_r; reflexivity | reflexivity].
Qed.
Print Assumptions C08_brace_lines_layout.
