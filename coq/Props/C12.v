(* C12 — Membership between address objects is exactly subnet containment.
   Statements are about gen_v4_contains / gen_v6_contains, the Gallina terms regenerated from
   IPv4Obj.__contains__ / IPv6Obj.__contains__ in /repo on every run.  `y.__contains__(x)` is `x in y`. *)
From Coq Require Import ZArith.
Require Import CCP.Lib.Res CCP.Model.IPRef CCP.gen.GenIP CCP.Proofs.C12Proofs.
Open Scope Z_scope.

Theorem C12_v4_contains_iff : forall y x, wf 32 y -> wf 32 x ->
  gen_v4_contains y x = Ok true <-> (plen y <= plen x /\ addr x / 2 ^ (32 - plen y) = addr y / 2 ^ (32 - plen y)).
Proof. exact v4_contains_iff. Qed.
Print Assumptions C12_v4_contains_iff.

Theorem C12_v6_contains_iff : forall y x, wf 128 y -> wf 128 x ->
  gen_v6_contains y x = Ok true <-> (plen y <= plen x /\ addr x / 2 ^ (128 - plen y) = addr y / 2 ^ (128 - plen y)).
Proof. exact v6_contains_iff. Qed.
Print Assumptions C12_v6_contains_iff.

Theorem C12_v4_contains_total : forall y x, wf 32 y -> wf 32 x -> exists b, gen_v4_contains y x = Ok b.
Proof. exact v4_contains_total. Qed.
Print Assumptions C12_v4_contains_total.

Theorem C12_v6_contains_total : forall y x, wf 128 y -> wf 128 x -> exists b, gen_v6_contains y x = Ok b.
Proof. exact v6_contains_total. Qed.
Print Assumptions C12_v6_contains_total.

Theorem C12_v4_contains_iff_range : forall y x, wf 32 y -> wf 32 x ->
  gen_v4_contains y x = Ok true <->
  (forall a, netw 32 x <= a <= lastaddr 32 x -> netw 32 y <= a <= lastaddr 32 y).
Proof. exact v4_contains_iff_range. Qed.
Print Assumptions C12_v4_contains_iff_range.

Theorem C12_v6_contains_iff_range : forall y x, wf 128 y -> wf 128 x ->
  gen_v6_contains y x = Ok true <->
  (forall a, netw 128 x <= a <= lastaddr 128 x -> netw 128 y <= a <= lastaddr 128 y).
Proof. exact v6_contains_iff_range. Qed.
Print Assumptions C12_v6_contains_iff_range.

Theorem C12_v4_refl : forall y, wf 32 y -> gen_v4_contains y y = Ok true.
Proof. exact v4_contains_refl. Qed.
Print Assumptions C12_v4_refl.

Theorem C12_v6_refl : forall y, wf 128 y -> gen_v6_contains y y = Ok true.
Proof. exact v6_contains_refl. Qed.
Print Assumptions C12_v6_refl.

Theorem C12_v4_trans : forall z y x, wf 32 z -> wf 32 y -> wf 32 x ->
  gen_v4_contains z y = Ok true -> gen_v4_contains y x = Ok true -> gen_v4_contains z x = Ok true.
Proof. exact v4_contains_trans. Qed.
Print Assumptions C12_v4_trans.

Theorem C12_v6_trans : forall z y x, wf 128 z -> wf 128 y -> wf 128 x ->
  gen_v6_contains z y = Ok true -> gen_v6_contains y x = Ok true -> gen_v6_contains z x = Ok true.
Proof. exact v6_contains_trans. Qed.
Print Assumptions C12_v6_trans.

Theorem C12_v4_first_last : forall y, wf 32 y ->
  gen_v4_contains y (mk_host 32 (netw 32 y)) = Ok true /\ gen_v4_contains y (mk_host 32 (lastaddr 32 y)) = Ok true.
Proof. exact v4_first_last. Qed.
Print Assumptions C12_v4_first_last.

Theorem C12_v6_first_last : forall y, wf 128 y ->
  gen_v6_contains y (mk_host 128 (netw 128 y)) = Ok true /\ gen_v6_contains y (mk_host 128 (lastaddr 128 y)) = Ok true.
Proof. exact v6_first_last. Qed.
Print Assumptions C12_v6_first_last.

Theorem C12_v4_outside : forall y a, wf 32 y -> 0 <= a < 2 ^ 32 -> 0 < plen y ->
  (a < netw 32 y \/ lastaddr 32 y < a) -> gen_v4_contains y (mk_host 32 a) = Ok false.
Proof. exact v4_outside. Qed.
Print Assumptions C12_v4_outside.

Theorem C12_v6_outside : forall y a, wf 128 y -> 0 <= a < 2 ^ 128 -> 0 < plen y ->
  (a < netw 128 y \/ lastaddr 128 y < a) -> gen_v6_contains y (mk_host 128 a) = Ok false.
Proof. exact v6_outside. Qed.
Print Assumptions C12_v6_outside.

Theorem C12_v4_default_route : forall y x, wf 32 y -> wf 32 x -> plen y = 0 -> gen_v4_contains y x = Ok true.
Proof. exact v4_default_route. Qed.
Print Assumptions C12_v4_default_route.

Theorem C12_v6_default_route : forall y x, wf 128 y -> wf 128 x -> plen y = 0 -> gen_v6_contains y x = Ok true.
Proof. exact v6_default_route. Qed.
Print Assumptions C12_v6_default_route.
