(* placeholder; replaced below *)
Require Import CCP.Model.Mac.
