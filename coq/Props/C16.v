(* C16 — MAC and EUI-64 objects: every rendering denotes the same address.
   Statements are about Model/Mac.v: an object is its 48-bit (64-bit) value; mac_new / eui_new are the constructors on a
   str, mac_cisco / mac_dash / mac_colon / mac_unix (eui_cisco / eui_dash / eui_colon) the properties, mac_eq / eui_eq
   the == of two objects.  The format tables come from the installed macaddress package on every run (gen/TabC16.v).

   Vocabulary (Model/Mac.v, executable):  nibbles k v = the k hex digits of v, most significant first;
   fill t cs = the format string t with its 'x' places replaced, left to right, by the characters cs;
   spell t mask v = fill t (digits of v, digit i in upper case iff mask[i]);  spell_lower t v = all digits lower case. *)
From Coq Require Import NArith List.
Require Import CCP.Lib.PyStr CCP.Lib.Res CCP.gen.TabC16 CCP.Model.Mac CCP.Proofs.C16Proofs.
Import ListNotations.
Open Scope N_scope.

(* the vocabulary means what it says: the digits of v are below 16, there are k of them, and they denote v *)
Theorem C16_nibbles_are_the_hex_digits : forall k v, v < 16 ^ N.of_nat k ->
  length (nibbles k v) = k /\ Forall (fun d => d < 16) (nibbles k v) /\ fold_left (fun a d => a * 16 + d) (nibbles k v) 0 = v.
Proof. intros k v H. exact (conj (nibbles_length k v) (conj (nibbles_lt16 k v) (nibbles_value k v H))). Qed.
Print Assumptions C16_nibbles_are_the_hex_digits.

(* the formats the library accepts are exactly the four spellings the property names *)
Theorem C16_formats :
  tab_eui48_formats = [fmt_dash48; fmt_colon48; fmt_cisco48; fmt_bare48] /\
  tab_eui64_formats = [fmt_dash64; fmt_colon64; fmt_cisco64; fmt_bare64].
Proof. exact (conj (proj1 tables48) (proj1 tables64)). Qed.
Print Assumptions C16_formats.

(* ---------------------------------------------------------------- MACObj *)
(* every rendering is the lower-case digits of the value in the right grouping (and never raises); no bound on v needed *)
Theorem C16_mac_render_lower_grouped : forall v,
  mac_cisco v = Ok (spell_lower fmt_cisco48 v) /\ mac_dash v = Ok (spell_lower fmt_dash48 v) /\
  mac_colon v = Ok (spell_lower fmt_colon48 v) /\ mac_unix v = Ok (spell_lower fmt_dash48 v).
Proof. exact mac_render. Qed.
Print Assumptions C16_mac_render_lower_grouped.
Example ex_mac_render : mac_cisco 0x001122AAFF01 = Ok [48;48;49;49;46;50;50;97;97;46;102;102;48;49]   (* 0011.22aa.ff01 *)
                        /\ spell_lower fmt_cisco48 0x001122AAFF01 = [48;48;49;49;46;50;50;97;97;46;102;102;48;49].
Proof. split; vm_compute; reflexivity. Qed.

(* each rendering re-parses to the same object *)
Theorem C16_mac_reparse : forall v, v < 2 ^ 48 -> forall r, In r [mac_cisco; mac_dash; mac_colon; mac_unix] ->
  exists s, r v = Ok s /\ mac_new s = Ok v.
Proof. exact mac_reparse. Qed.
Print Assumptions C16_mac_reparse.

(* every accepted spelling (format x per-digit letter case) of every value parses to that value *)
Theorem C16_mac_parse_any_spelling : forall v t mask,
  v < 2 ^ 48 -> In t [fmt_dash48; fmt_colon48; fmt_cisco48; fmt_bare48] -> length mask = 12%nat ->
  mac_new (spell t mask v) = Ok v.
Proof. exact mac_parse_any_spelling. Qed.
Print Assumptions C16_mac_parse_any_spelling.
Example ex_mac_spelling :
  spell fmt_cisco48 [false;false;false;false;false;false;true;false;false;true;false;false] 0x001122AAFF01
  = [48;48;49;49;46;50;50;65;97;46;102;70;48;49]                                                          (* 0011.22Aa.fF01 *)
  /\ mac_new [48;48;49;49;46;50;50;65;97;46;102;70;48;49] = Ok 0x001122AAFF01.
Proof. split; vm_compute; reflexivity. Qed.

(* nothing else is accepted: an accepted string IS a spelling of the returned value, which is below 2^48 *)
Theorem C16_mac_parse_sound : forall s v, mac_new s = Ok v ->
  v < 2 ^ 48 /\ exists t mask, In t [fmt_dash48; fmt_colon48; fmt_cisco48; fmt_bare48] /\ length mask = 12%nat /\ s = spell t mask v.
Proof. exact mac_parse_sound. Qed.
Print Assumptions C16_mac_parse_sound.
Theorem C16_mac_new_total : forall s, (exists v, mac_new s = Ok v) \/ mac_new s = Raise E_ValueError.
Proof. intros s. apply hw_parse_total. Qed.
Print Assumptions C16_mac_new_total.
Theorem C16_mac_reject_wrong_length : forall s, ~ In (length s) [17; 14; 12]%nat -> mac_new s = Raise E_ValueError.
Proof. exact mac_reject_length. Qed.
Print Assumptions C16_mac_reject_wrong_length.
Example ex_mac_reject : mac_new [48;48;49;49;46;50;50;97;97;46;102;102;48;103] = Raise E_ValueError           (* 0011.22aa.ff0g *)
                        /\ mac_new [48;48;45;49;49;58;50;50;45;97;97;45;102;102;45;48;49] = Raise E_ValueError  (* 00-11:22-aa-ff-01 *)
                        /\ mac_new [120;120;120;120;46;120;120;120;120;46;120;120;120;120] = Raise E_ValueError (* xxxx.xxxx.xxxx *).
Proof. repeat split; vm_compute; reflexivity. Qed.

(* two objects are equal iff their values are equal ... *)
Theorem C16_mac_eq_iff_value : forall a b, a < 2 ^ 48 -> b < 2 ^ 48 ->
  (mac_eq a b = Ok true <-> a = b) /\ (mac_eq a b = Ok false <-> a <> b).
Proof.
  intros a b Ha Hb. rewrite (mac_eq_spec a b Ha Hb). destruct (N.eqb a b) eqn:E.
  - apply N.eqb_eq in E. split; split; intros H; try reflexivity; try assumption; try discriminate H. contradiction.
  - apply N.eqb_neq in E. split; split; intros H; try reflexivity; try assumption; try discriminate H. contradiction.
Qed.
Print Assumptions C16_mac_eq_iff_value.
(* ... whatever spelling or letter case they were built from *)
Theorem C16_mac_eq_any_spelling : forall s1 s2 a b, mac_new s1 = Ok a -> mac_new s2 = Ok b ->
  (mac_eq a b = Ok true <-> a = b) /\ (mac_eq a b = Ok false <-> a <> b).
Proof.
  intros s1 s2 a b H1 H2. apply C16_mac_eq_iff_value; [exact (proj1 (mac_parse_sound s1 a H1)) | exact (proj1 (mac_parse_sound s2 b H2))].
Qed.
Print Assumptions C16_mac_eq_any_spelling.

(* ---------------------------------------------------------------- EUI64Obj *)
Theorem C16_eui64_render_lower_grouped : forall v,
  eui_cisco v = Ok (spell_lower fmt_cisco64 v) /\ eui_dash v = Ok (spell_lower fmt_dash64 v) /\
  eui_colon v = Ok (spell_lower fmt_colon64 v).
Proof. exact eui_render. Qed.
Print Assumptions C16_eui64_render_lower_grouped.
Example ex_eui_render : eui_cisco 0x001122AAFF010001 = Ok [48;48;49;49;46;50;50;97;97;46;102;102;48;49;46;48;48;48;49].  (* 0011.22aa.ff01.0001 *)
Proof. vm_compute. reflexivity. Qed.

Theorem C16_eui64_reparse : forall v, v < 2 ^ 64 -> forall r, In r [eui_cisco; eui_dash; eui_colon] ->
  exists s, r v = Ok s /\ eui_new s = Ok v.
Proof. exact eui_reparse. Qed.
Print Assumptions C16_eui64_reparse.

Theorem C16_eui64_parse_any_spelling : forall v t mask,
  v < 2 ^ 64 -> In t [fmt_dash64; fmt_colon64; fmt_cisco64; fmt_bare64] -> length mask = 16%nat ->
  eui_new (spell t mask v) = Ok v.
Proof. exact eui_parse_any_spelling. Qed.
Print Assumptions C16_eui64_parse_any_spelling.

Theorem C16_eui64_parse_sound : forall s v, eui_new s = Ok v ->
  v < 2 ^ 64 /\ exists t mask, In t [fmt_dash64; fmt_colon64; fmt_cisco64; fmt_bare64] /\ length mask = 16%nat /\ s = spell t mask v.
Proof. exact eui_parse_sound. Qed.
Print Assumptions C16_eui64_parse_sound.
Theorem C16_eui64_new_total : forall s, (exists v, eui_new s = Ok v) \/ eui_new s = Raise E_ValueError.
Proof. intros s. apply hw_parse_total. Qed.
Print Assumptions C16_eui64_new_total.
Theorem C16_eui64_reject_wrong_length : forall s, ~ In (length s) [23; 19; 16]%nat -> eui_new s = Raise E_ValueError.
Proof. exact eui_reject_length. Qed.
Print Assumptions C16_eui64_reject_wrong_length.

Theorem C16_eui64_eq_iff_value : forall a b, a < 2 ^ 64 -> b < 2 ^ 64 ->
  (eui_eq a b = Ok true <-> a = b) /\ (eui_eq a b = Ok false <-> a <> b).
Proof.
  intros a b Ha Hb. rewrite (eui_eq_spec a b Ha Hb). destruct (N.eqb a b) eqn:E.
  - apply N.eqb_eq in E. split; split; intros H; try reflexivity; try assumption; try discriminate H. contradiction.
  - apply N.eqb_neq in E. split; split; intros H; try reflexivity; try assumption; try discriminate H. contradiction.
Qed.
Print Assumptions C16_eui64_eq_iff_value.
Theorem C16_eui64_eq_any_spelling : forall s1 s2 a b, eui_new s1 = Ok a -> eui_new s2 = Ok b ->
  (eui_eq a b = Ok true <-> a = b) /\ (eui_eq a b = Ok false <-> a <> b).
Proof.
  intros s1 s2 a b H1 H2. apply C16_eui64_eq_iff_value; [exact (proj1 (eui_parse_sound s1 a H1)) | exact (proj1 (eui_parse_sound s2 b H2))].
Qed.
Print Assumptions C16_eui64_eq_any_spelling.

(* ---------------------------------------------------------------- MACEUISearch (macgrep): a word yields an object exactly when
   the corresponding constructor accepts it, MAC first *)
Theorem C16_search_classify : forall w,
  match classify w with
  | F_mac v => mac_new w = Ok v
  | F_eui64 v => eui_new w = Ok v /\ mac_new w = Raise E_ValueError
  | F_none => mac_new w = Raise E_ValueError /\ eui_new w = Raise E_ValueError
  end.
Proof. exact classify_spec. Qed.
Print Assumptions C16_search_classify.
