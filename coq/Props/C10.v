(* C10 — Diff output transforms the old config into the new; rollback is its mirror.
   PARTIAL claim: the statements are about the Gallina model (Model/Diff.v) of ciscoconfparse2.Diff and
   of the option-neutral core of the third-party hier_config library it wraps; the model is tied to
   the real code by the correspondence streams of harness/props/c10.py.

   Vocabulary:  load f         the hierarchical config denoted by input form f (sibling-unique forest)
                paths t        the set of hierarchical lines of t (each line with its ancestors)
                get_diff o n   the printed diff lines;  parse_out reads them back into commands
                               (a line at depth d is a command under the d most recent enclosing lines)
                removal_target c = Some tgt   c is `no x` under its ancestors and names line tgt;
                               None: c is an addition
                apply_cmds     adds each addition, removes a named line together with its subtree
                no_negated f   no line of f starts with "no "  (then `no x` can only mean removal) *)
From Coq Require Import NArith ZArith List Bool.
Require Import CCP.Lib.PyStr CCP.Model.Diff CCP.Proofs.C10Proofs.
Import ListNotations.

(* applying the diff's commands to the old config yields exactly the new config's set of lines *)
Theorem C10_diff_apply : forall old new : form, no_negated old -> no_negated new ->
  forall p, In p (apply_cmds (parse_out (get_diff old new)) (paths (load old))) <-> In p (paths (load new)).
Proof. exact diff_apply. Qed.
Print Assumptions C10_diff_apply.

(* every added command is a line of the new config, and is absent from the old config unless it is
   the printed context (a strict prefix) of a later command *)
Theorem C10_diff_adds_absent : forall old new : form, no_negated old -> no_negated new ->
  forall c, In c (parse_out (get_diff old new)) -> removal_target c = None ->
  In c (paths (load new)) /\
  (In c (paths (load old)) -> exists c', In c' (parse_out (get_diff old new)) /\ strict_prefix c c' = true).
Proof. exact diff_adds_absent. Qed.
Print Assumptions C10_diff_adds_absent.

(* every removal names a line present in the old config and absent from the new one *)
Theorem C10_diff_removes_present_and_gone : forall old new : form, no_negated old -> no_negated new ->
  forall c tgt, In c (parse_out (get_diff old new)) -> removal_target c = Some tgt ->
  In tgt (paths (load old)) /\ ~ In tgt (paths (load new)).
Proof. exact diff_removes_present_and_gone. Qed.
Print Assumptions C10_diff_removes_present_and_gone.

(* the diff of a config with itself is empty (any config, any form) *)
Theorem C10_diff_self_empty : forall f : form, get_diff f f = [].
Proof. exact diff_self_empty. Qed.
Print Assumptions C10_diff_self_empty.

(* the rollback from old to new is the diff from new to old *)
Theorem C10_rollback_is_mirror : forall old new : form, get_rollback old new = get_diff new old.
Proof. exact rollback_is_mirror. Qed.
Print Assumptions C10_rollback_is_mirror.

(* list, tuple, string and file forms of the same lines denote the same config; None the empty one *)
Theorem C10_forms_same_config : forall ls : list str, Forall nobreak ls ->
  load (FList ls) = load_lines ls /\ load (FTuple ls) = load_lines ls /\
  load (FStr (join linesep ls)) = load_lines ls /\ load (FFile (join linesep ls)) = load_lines ls.
Proof. exact forms_same_config. Qed.
Print Assumptions C10_forms_same_config.

Theorem C10_form_none : load FNone = load_lines [] /\ load (FList []) = load_lines [] /\ load (FStr []) = load_lines [].
Proof. exact form_none. Qed.
Print Assumptions C10_form_none.

(* hence diff and rollback depend only on the configs denoted, not on the input forms *)
Theorem C10_forms_same_diff : forall a a' b b' : form, load a = load a' -> load b = load b' ->
  get_diff a b = get_diff a' b' /\ get_rollback a b = get_rollback a' b'.
Proof. exact forms_same_diff. Qed.
Print Assumptions C10_forms_same_diff.

(* the loader never produces two siblings with the same text (hier_config merges duplicates) *)
Theorem C10_load_unique_siblings : forall f : form, uniq (load f).
Proof. exact load_uniq. Qed.
Print Assumptions C10_load_unique_siblings.

(* the model's output passes the very check that the correspondence applies to the real output *)
Theorem C10_model_passes_check : forall old new : form, no_negated old -> no_negated new ->
  spec_ok (paths (load old)) (paths (load new)) (parse_out (get_diff old new)) = true.
Proof. exact model_passes_check. Qed.
Print Assumptions C10_model_passes_check.
