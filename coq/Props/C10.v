(* C10 — Diff output transforms the old config into the new; rollback is its mirror. *)
From Coq Require Import NArith ZArith List Bool.
Require Import CCP.Lib.PyStr CCP.Model.Diff CCP.Proofs.C10Proofs.
Import ListNotations.

Theorem C10_rollback_is_mirror : forall old new : form, get_rollback old new = get_diff new old.
Proof. exact rollback_is_mirror. Qed.
Print Assumptions C10_rollback_is_mirror.
