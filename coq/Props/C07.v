(* C07 -- after commit the tree is that of a fresh parse, for any edit history.  committed o st: the state is not dirty and its lines are what the constructor makes of its own text (so its tree, tree_parents o (s_lines st), is the tree of a fresh parse).  Under auto-commit every state of every history is committed (inv_hist_autocommit); an explicit commit always leads to a committed state and committing twice changes nothing; searches are refused exactly in the dirty states (checkpoint-refreshing operations without auto-commit) and allowed again after commit.  The dirty flag abstracts the hash-sum checkpoint (assumption ck_separates, see design/C07.md). *)
From Coq Require Import List Arith Bool NArith ZArith. Require Import CCP.Lib.Res CCP.Lib.PyStr CCP.Model.Links CCP.Model.Parse CCP.Model.Family CCP.Model.Session CCP.Proofs.ParseProofs CCP.Proofs.SessionProofs. Import ListNotations.

Theorem C07_start_committed :
  forall o ls, Forall oracle_ok ls -> committed o (start o ls).
Proof. exact start_committed. Qed.
Print Assumptions C07_start_committed.

Theorem C07_step_autocommit_committed :
  forall o st p st', Forall oracle_ok (s_lines st) -> ok_op p -> step o true st p = Ok st' -> committed o st'.
Proof. exact step_autocommit_committed. Qed.
Print Assumptions C07_step_autocommit_committed.

Theorem C07_commit_committed :
  forall o ac st st', Forall oracle_ok (s_lines st) -> step o ac st OCommit = Ok st' -> committed o st'.
Proof. exact commit_committed. Qed.
Print Assumptions C07_commit_committed.

Theorem C07_commit_twice :
  forall o ac st st1 st2, Forall oracle_ok (s_lines st) -> step o ac st OCommit = Ok st1 -> step o ac st1 OCommit = Ok st2 -> st2 = st1.
Proof. exact commit_twice. Qed.
Print Assumptions C07_commit_twice.

Theorem C07_inv_hist_autocommit :
  forall o, forall ps st, committed o st -> Forall ok_op ps -> Forall (fun r => match r with Some st' => committed o st' | None => True end) (run_hist o true st ps).
Proof. exact inv_hist_autocommit. Qed.
Print Assumptions C07_inv_hist_autocommit.

Theorem C07_committed_forest :
  forall o st, committed o st -> WFmap (tree_parents o (s_lines st)).
Proof. exact committed_forest. Qed.
Print Assumptions C07_committed_forest.

Theorem C07_search_refused_when_dirty :
  forall o st p st', s_dirty st = false -> step o false st p = Ok st' -> (search_allowed st' = false <-> (refreshes_checkpoint p = true /\ p <> OCommit)).
Proof. exact search_refused_when_dirty. Qed.
Print Assumptions C07_search_refused_when_dirty.

Theorem C07_search_ok_after_commit :
  forall o ac st st', step o ac st OCommit = Ok st' -> search_allowed st' = true.
Proof. exact search_ok_after_commit. Qed.
Print Assumptions C07_search_ok_after_commit.

Theorem C07_search_ok_with_autocommit :
  forall o st p st', step o true st p = Ok st' -> search_allowed st' = true.
Proof. exact search_ok_with_autocommit. Qed.
Print Assumptions C07_search_ok_with_autocommit.

Theorem C07_ibl_filter_idempotent :
  forall o ls, Forall oracle_ok ls -> ibl_filter o (ibl_filter o ls) = ibl_filter o ls.
Proof. exact ibl_filter_idempotent. Qed.
Print Assumptions C07_ibl_filter_idempotent.

Theorem C07_commit_idempotent :
  forall o ls, Forall oracle_ok ls -> construct_texts o (construct_texts o ls) = construct_texts o ls.
Proof. exact commit_idempotent. Qed.
Print Assumptions C07_commit_idempotent.
