(* C11 -- IPv4/IPv6 objects agree with the standard library.  Numeric layer: the derived integer values of IPv4Obj / IPv6Obj (network = addr AND netmask, netmask/hostmask complement, broadcast/last = network + hostmask, bounds, numhosts); gen_* are regenerated from /repo on every run.  Textual layer, IPv4: v4_parse (Model/IPText.v) mirrors the constructor's regex alternatives and ipaddress's validation; every accepted spelling (render4 f a p with any surrounding blanks) parses to (a, p), and whatever parses is in range.  Textual layer, IPv6: v6_parse (Model/IPText6.v) transcribes ipaddress's IPv6 parser and IPv6Obj's input handling; whatever parses is in range (v6_parse_sound), and every uncompressed eight-group text in any hextet spelling (lower/upper case minimal, zero padded: spellings), with or without /len and surrounding blanks, parses to (value_of groups, len) (v6_parse_full); every compressed text hi::lo, either side possibly empty, at most seven groups (v6_parse_compressed) denotes hi ++ zeros ++ lo; a dotted-quad tail after six groups or after hi::lo with at most five groups (v6_parse_embedded_full / _compressed) contributes the low 32 bits (value_of_embedded); 'addr<blanks>len' reads exactly as 'addr/len' (v6_parse_blank_form).  Rejection side: an accepted address text consists of hexadecimal digits, ':' and '.' only, so one foreign character anywhere makes the parse fail (v6_addr_alphabet, v6_addr_rejects_foreign).  Never truncated: whatever v4_parse / v6_parse accept decomposes completely into an address text accepted as a whole plus nothing, a separator and a whole mask or length (v4_parse_shape with dotted_whole, v6_parse_shape) -- no unread remainder.  Renderings: the IPv6 renderer of Model/IPRender6.v (eight minimal lower-case groups, leftmost longest run of >= 2 zero groups as '::'; tied to str(ip) / as_cidr_addr / as_cidr_net / netmask / hostmask by the render6 stream) re-parses to the same value for every 128-bit value (render6_parses, render6_cidr_parses).  Exactness of the group logic: v6_groups accepts exactly eight groups or hi '::' lo with at most seven groups (v6_groups_iff), and an accepted address text is the ':'-join of parts that classify to such fields (v6_addr_complete).  These four shapes are all the spellings ipaddress accepts (scope ids are refused by IPv6Obj); rejection of everything else and the string renderings are decided by the v6text correspondence stream and the differential tie against Python's ipaddress (design/C11.md). *)
From Coq Require Import ZArith List NArith. Require Import CCP.Lib.Res CCP.Lib.PyStr CCP.Model.IPRef CCP.Model.IPText CCP.Model.IPText6 CCP.gen.GenIP CCP.Proofs.C11Proofs CCP.Proofs.IPTextProofs CCP.Proofs.IPText6Proofs CCP.Proofs.IPText6Compressed CCP.Proofs.IPText6Embedded CCP.Proofs.IPText6Blank CCP.Proofs.IPText6Alphabet CCP.Proofs.IPTextShape CCP.Proofs.IPText6Shape CCP.Model.IPRender6 CCP.Proofs.IPRender6Proofs CCP.Proofs.IPText6Complete. Import ListNotations. Open Scope Z_scope.

Theorem C11_v6_network_is_and :
  forall o, wf 128 o -> netw 128 o = Z.land (addr o) (netmask 128 o).
Proof. exact v6_network_is_and. Qed.
Print Assumptions C11_v6_network_is_and.

Theorem C11_v4_masks :
  forall o, wf 32 o -> netmask 32 o + hostmask 32 o = 4294967295 /\ hostmask 32 o = 2 ^ (32 - plen o) - 1.
Proof. exact v4_masks. Qed.
Print Assumptions C11_v4_masks.

Theorem C11_v6_masks :
  forall o, wf 128 o -> netmask 128 o + hostmask 128 o = 340282366920938463463374607431768211455 /\ hostmask 128 o = 2 ^ (128 - plen o) - 1.
Proof. exact v6_masks. Qed.
Print Assumptions C11_v6_masks.

Theorem C11_v4_broadcast :
  forall o, wf 32 o -> gen_v4_as_decimal_broadcast o = Ok (netw 32 o + hostmask 32 o).
Proof. exact v4_broadcast. Qed.
Print Assumptions C11_v4_broadcast.

Theorem C11_v6_last :
  forall o, wf 128 o -> gen_v6_as_decimal_network_maxint o = Ok (netw 128 o + hostmask 128 o).
Proof. exact v6_last. Qed.
Print Assumptions C11_v6_last.

Theorem C11_v4_range :
  forall o, wf 32 o -> 0 <= netw 32 o <= addr o /\ addr o <= lastaddr 32 o < 2 ^ 32.
Proof. exact v4_range. Qed.
Print Assumptions C11_v4_range.

Theorem C11_v6_range :
  forall o, wf 128 o -> 0 <= netw 128 o <= addr o /\ addr o <= lastaddr 128 o < 2 ^ 128.
Proof. exact v6_range. Qed.
Print Assumptions C11_v6_range.

Theorem C11_v4_numhosts :
  forall o, wf 32 o -> gen_v4_numhosts o = Ok (numhosts_ref 32 o).
Proof. exact v4_numhosts. Qed.
Print Assumptions C11_v4_numhosts.

Theorem C11_v6_numhosts :
  forall o, wf 128 o -> gen_v6_numhosts o = Ok (numhosts_ref 128 o).
Proof. exact v6_numhosts. Qed.
Print Assumptions C11_v6_numhosts.

Theorem C11_netw_idem :
  forall W o, 0 < W -> wf W o -> netw W (set_addr o (netw W o)) = netw W o /\ (netw W o) mod (blk W o) = 0.
Proof. exact netw_idem. Qed.
Print Assumptions C11_netw_idem.

Theorem C11_v4_netw_idem :
  forall o, wf 32 o -> netw 32 (set_addr o (netw 32 o)) = netw 32 o /\ (netw 32 o) mod (2 ^ (32 - plen o)) = 0.
Proof. exact v4_netw_idem. Qed.
Print Assumptions C11_v4_netw_idem.

Theorem C11_v6_netw_idem :
  forall o, wf 128 o -> netw 128 (set_addr o (netw 128 o)) = netw 128 o /\ (netw 128 o) mod (2 ^ (128 - plen o)) = 0.
Proof. exact v6_netw_idem. Qed.
Print Assumptions C11_v6_netw_idem.

Theorem C11_host_bits_kept :
  forall W a p, addr (set_plen (mk_host W a) p) = a /\ plen (set_plen (mk_host W a) p) = p.
Proof. exact host_bits_kept. Qed.
Print Assumptions C11_host_bits_kept.

Theorem C11_consts_ok :
  c_IPV4_MAXINT = 2 ^ 32 - 1 /\ c_IPV6_MAXINT = 2 ^ 128 - 1 /\ c_IPV4_MAX_PREFIXLEN = 32 /\ c_IPV6_MAX_PREFIXLEN = 128.
Proof. exact consts_ok. Qed.
Print Assumptions C11_consts_ok.

Theorem C11_v4_parse_render :
  forall f a p pre post, (0 <= a < 2 ^ 32)%Z -> (0 <= p <= 32)%Z -> form_ok f p -> forallb is_space pre = true -> forallb is_space post = true -> v4_parse (pre ++ render4 f a p ++ post) = Some (a, p).
Proof. exact v4_parse_render. Qed.
Print Assumptions C11_v4_parse_render.

Theorem C11_v4_parse_sound :
  forall s a p, v4_parse s = Some (a, p) -> (0 <= a < 2 ^ 32)%Z /\ (0 <= p <= 32)%Z.
Proof. exact v4_parse_sound. Qed.
Print Assumptions C11_v4_parse_sound.

Theorem C11_v6_addr_range :
  forall s v, v6_addr s = Some v -> (0 <= v < 2 ^ 128)%Z.
Proof. exact v6_addr_range. Qed.
Print Assumptions C11_v6_addr_range.

Theorem C11_v6_parse_sound :
  forall s a p, v6_parse s = Some (a, p) -> (0 <= a < 2 ^ 128)%Z /\ (0 <= p <= 128)%Z.
Proof. exact v6_parse_sound. Qed.
Print Assumptions C11_v6_parse_sound.

Theorem C11_v6_parse_full :
  forall sp g0 g1 g2 g3 g4 g5 g6 g7 p (with_len : bool) pre post, spelling sp -> Forall (fun g => (g < 65536)%N) [g0; g1; g2; g3; g4; g5; g6; g7] -> (0 <= p <= 128)%Z -> forallb is_space pre = true -> forallb is_space post = true -> v6_parse (pre ++ (full_text sp [g0; g1; g2; g3; g4; g5; g6; g7] ++ (if with_len then [c_slash] ++ render_dec (Z.to_N p) else [])) ++ post) = Some (value_of [g0; g1; g2; g3; g4; g5; g6; g7], if with_len then p else 128%Z).
Proof. exact v6_parse_full. Qed.
Print Assumptions C11_v6_parse_full.

Theorem C11_spellings :
  spelling (sp_min false) /\ spelling (sp_min true) /\ spelling sp_pad.
Proof. exact spellings. Qed.
Print Assumptions C11_spellings.

Theorem C11_v6_addr_compressed :
  forall sp hi lo, spelling sp -> Forall lt16 hi -> Forall lt16 lo -> (length hi + length lo <= 7)%nat -> v6_addr (ctext sp hi lo) = Some (value_of (hi ++ repeat 0%N (8 - (length hi + length lo))%nat ++ lo)).
Proof. exact v6_addr_compressed. Qed.
Print Assumptions C11_v6_addr_compressed.

Theorem C11_v6_parse_compressed :
  forall sp hi lo p (with_len : bool) pre post, spelling sp -> Forall lt16 hi -> Forall lt16 lo -> (length hi + length lo <= 7)%nat -> (0 <= p <= 128)%Z -> forallb is_space pre = true -> forallb is_space post = true -> v6_parse (pre ++ (ctext sp hi lo ++ (if with_len then [c_slash] ++ render_dec (Z.to_N p) else [])) ++ post) = Some (value_of (hi ++ repeat 0%N (8 - (length hi + length lo))%nat ++ lo), if with_len then p else 128%Z).
Proof. exact v6_parse_compressed. Qed.
Print Assumptions C11_v6_parse_compressed.

Theorem C11_value_of_embedded :
  forall gs a, (0 <= a < 2 ^ 32)%Z -> (value_of (gs ++ [hi16 a; lo16 a]) = value_of gs * 2 ^ 32 + a)%Z.
Proof. exact value_of_embedded. Qed.
Print Assumptions C11_value_of_embedded.

Theorem C11_v6_parse_embedded_full :
  forall sp gs a p (with_len : bool) pre post, spelling sp -> Forall lt16 gs -> (length gs = 6)%nat -> (0 <= a < 2 ^ 32)%Z -> (0 <= p <= 128)%Z -> forallb is_space pre = true -> forallb is_space post = true -> v6_parse (pre ++ (ftext4 sp gs a ++ (if with_len then [c_slash] ++ render_dec (Z.to_N p) else [])) ++ post) = Some ((value_of gs * 2 ^ 32 + a)%Z, if with_len then p else 128%Z).
Proof. exact v6_parse_embedded_full. Qed.
Print Assumptions C11_v6_parse_embedded_full.

Theorem C11_v6_parse_embedded_compressed :
  forall sp hi lo a p (with_len : bool) pre post, spelling sp -> Forall lt16 hi -> Forall lt16 lo -> (length hi + length lo <= 5)%nat -> (0 <= a < 2 ^ 32)%Z -> (0 <= p <= 128)%Z -> forallb is_space pre = true -> forallb is_space post = true -> v6_parse (pre ++ (etext sp hi lo a ++ (if with_len then [c_slash] ++ render_dec (Z.to_N p) else [])) ++ post) = Some ((value_of (hi ++ repeat 0%N (6 - (length hi + length lo))%nat ++ lo) * 2 ^ 32 + a)%Z, if with_len then p else 128%Z).
Proof. exact v6_parse_embedded_compressed. Qed.
Print Assumptions C11_v6_parse_embedded_compressed.

Theorem C11_v6_parse_blank_form :
  forall t pad d pre post, nospace t -> t <> [] -> nospace d -> d <> [] -> forallb is_space pad = true -> pad <> [] -> forallb is_space pre = true -> forallb is_space post = true -> v6_parse (pre ++ (t ++ pad ++ d) ++ post) = v6_parse (t ++ [c_slash] ++ d).
Proof. exact v6_parse_blank_form. Qed.
Print Assumptions C11_v6_parse_blank_form.

Theorem C11_v6_addr_alphabet :
  forall a v, v6_addr a = Some v -> forallb addr_char a = true.
Proof. exact v6_addr_alphabet. Qed.
Print Assumptions C11_v6_addr_alphabet.

Theorem C11_v6_addr_rejects_foreign :
  forall a c, In c a -> addr_char c = false -> v6_addr a = None.
Proof. exact v6_addr_rejects_foreign. Qed.
Print Assumptions C11_v6_addr_rejects_foreign.

Theorem C11_v4_parse_shape :
  forall s a p, v4_parse s = Some (a, p) -> exists d1 rest, strip s = d1 ++ rest /\ dotted d1 = Some a /\ tail4 p rest.
Proof. exact v4_parse_shape. Qed.
Print Assumptions C11_v4_parse_shape.

Theorem C11_dotted_whole :
  forall s a, dotted s = Some a -> exists o1 o2 o3 o4 n1 n2 n3 n4, split_on c_dot s = [o1; o2; o3; o4] /\ octet o1 = Some n1 /\ octet o2 = Some n2 /\ octet o3 = Some n3 /\ octet o4 = Some n4 /\ a = quad n1 n2 n3 n4.
Proof. exact dotted_whole. Qed.
Print Assumptions C11_dotted_whole.

Theorem C11_plen_digits_whole :
  forall m p, plen_of_digits m = Some p -> forallb is_digit m = true /\ m <> [].
Proof. exact plen_digits_whole. Qed.
Print Assumptions C11_plen_digits_whole.

Theorem C11_render_quad_injective :
  forall a b, (0 <= a < 2 ^ 32)%Z -> (0 <= b < 2 ^ 32)%Z -> render_quad a = render_quad b -> a = b.
Proof. exact render_quad_injective. Qed.
Print Assumptions C11_render_quad_injective.

Theorem C11_v6_parse_shape :
  forall s a p, v6_parse s = Some (a, p) -> exists t addr, v6_text s = Some t /\ (length t <= v6_maxlen)%nat /\ v6_addr addr = Some a /\ forallb (fun x => negb (N.eqb x c_slash)) addr = true /\ ((t = addr /\ p = 128%Z) \/ (exists m, t = addr ++ c_slash :: m /\ plen6_of_digits m = Some p)).
Proof. exact v6_parse_shape. Qed.
Print Assumptions C11_v6_parse_shape.

Theorem C11_plen6_digits_whole :
  forall m p, plen6_of_digits m = Some p -> forallb is_digit m = true /\ m <> [].
Proof. exact plen6_digits_whole. Qed.
Print Assumptions C11_plen6_digits_whole.

Theorem C11_groups_of_value_facts :
  forall a, (0 <= a < 2 ^ 128)%Z -> (length (groups_of_value a) = 8)%nat /\ Forall lt16 (groups_of_value a) /\ value_of (groups_of_value a) = a.
Proof. exact groups_of_value_facts. Qed.
Print Assumptions C11_groups_of_value_facts.

Theorem C11_render6_parses :
  forall a, (0 <= a < 2 ^ 128)%Z -> v6_parse (render6 a) = Some (a, 128%Z).
Proof. exact render6_parses. Qed.
Print Assumptions C11_render6_parses.

Theorem C11_render6_cidr_parses :
  forall a p, (0 <= a < 2 ^ 128)%Z -> (0 <= p <= 128)%Z -> v6_parse (render6_cidr a p) = Some (a, p).
Proof. exact render6_cidr_parses. Qed.
Print Assumptions C11_render6_cidr_parses.

Theorem C11_render6_injective :
  forall a b, (0 <= a < 2 ^ 128)%Z -> (0 <= b < 2 ^ 128)%Z -> render6 a = render6 b -> a = b.
Proof. exact render6_injective. Qed.
Print Assumptions C11_render6_injective.

Theorem C11_v6_groups_shapes :
  forall fs gs, v6_groups fs = Some gs -> (fs = map FHex gs /\ (length gs = 8)%nat) \/ (exists hi lo, fs = cfields hi lo /\ (length hi + length lo <= 7)%nat /\ gs = hi ++ repeat 0%N (8 - (length hi + length lo))%nat ++ lo).
Proof. exact v6_groups_shapes. Qed.
Print Assumptions C11_v6_groups_shapes.

Theorem C11_v6_groups_iff :
  forall fs gs, v6_groups fs = Some gs <-> (fs = map FHex gs /\ (length gs = 8)%nat) \/ (exists hi lo, fs = cfields hi lo /\ (length hi + length lo <= 7)%nat /\ gs = hi ++ repeat 0%N (8 - (length hi + length lo))%nat ++ lo).
Proof. exact v6_groups_iff. Qed.
Print Assumptions C11_v6_groups_iff.

Theorem C11_v6_addr_complete :
  forall a v, v6_addr a = Some v -> exists parts gs, a = join [c_colon] parts /\ (3 <= length parts)%nat /\ v = value_of gs /\ ((Forall (fun p => has_dot p = false) (skipn (length parts - 1)%nat parts) /\ v6_groups (map classify parts) = Some gs) \/ (exists front qt q, parts = front ++ [qt] /\ dotted qt = Some q /\ v6_groups (map classify front ++ [FHex (hi16 q); FHex (lo16 q)]) = Some gs)).
Proof. exact v6_addr_complete. Qed.
Print Assumptions C11_v6_addr_complete.
