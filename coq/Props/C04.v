(* C04 — Searches return exactly the matching lines, ordered and de-duplicated.

   Every theorem is about the executable model Model/Search.v (tied to /repo by the correspondence
   streams of harness/props/c04.py) and holds for EVERY forest `kids` (children lists of any shape),
   EVERY regex oracle `rxm mode slot line` and every other oracle; hypotheses appear only where needed:
     WF kids            children have larger line numbers than their parent and are lines of the config
     BlankOK kids tru   a line whose object is falsy (empty text) has no children and is nobody's child
     ShortcutOK .. md r the literal-substring shortcut of BaseCfgLine.re_search is sound for that regex
     NonEmptyOK .. md r every match of that regex is a non-empty string
   (all four are re-checked on every real case by Corr/C04.v: hyps_ok; Examples ex_WF / ex_BlankOK in
   Proofs/C04Proofs.v show a real forest meeting them).
   Specification vocabulary (Proofs/C04Proofs.v): `chains` = depth-first lexicographic enumeration of the
   None-padded chains; `is_chain rs ls` = line i+1 is a DIRECT child of line i and line i matches regex i;
   `padded_from` = shape of a None-padded branch; `Desc` = transitive closure of the child relation;
   `Below recurse` = direct child (recurse=false) or descendant (recurse=true).
   mode_of ex ws esc selects the specified reading of exactmatch / ignore_ws / escape_chars.

   Full statement for find_parent_objects_wo_child's LIST form ("the list and two-argument calling forms agree"):
   refuted by the code (finding F03) — see C04_wo_child_list_refuted; the two-argument form is proved. *)
From Coq Require Import List Arith Bool Sorting.Sorted.
Import ListNotations.
Require Import CCP.Model.Search CCP.Proofs.C04Proofs.

(* ---- line search (find_objects, CiscoConfParse.re_search_children) ---- *)
Theorem C04_find_objects_spec :
  forall (kids : list (list nat)) (rxm : nat -> nat -> nat -> bool) (r : nat) (ex ws esc rv : bool),
  find_objects kids rxm r ex ws esc rv =
  (if rv then List.rev (A:=nat) else fun l : list nat => l)
  (List.filter (rxm (mode_of ex ws esc) r) (List.seq 0 (length kids))).
Proof. exact find_objects_spec. Qed.
Print Assumptions C04_find_objects_spec.

Theorem C04_find_objects_members :
  forall (kids : list (list nat)) (rxm : nat -> nat -> nat -> bool) (r : nat)
  (ex ws esc rv : bool) (l : nat),
  List.In l (find_objects kids rxm r ex ws esc rv) <->
  l < length kids /\ rxm (mode_of ex ws esc) r l = true.
Proof. exact find_objects_members. Qed.
Print Assumptions C04_find_objects_members.

Theorem C04_find_objects_sorted :
  forall (kids : list (list nat)) (rxm : nat -> nat -> nat -> bool) (r : nat) (ex ws esc : bool),
  Sorted.StronglySorted lt (find_objects kids rxm r ex ws esc false).
Proof. exact find_objects_sorted. Qed.
Print Assumptions C04_find_objects_sorted.

Theorem C04_find_objects_reverse :
  forall (kids : list (list nat)) (rxm : nat -> nat -> nat -> bool) (r : nat) (ex ws esc : bool),
  find_objects kids rxm r ex ws esc true = List.rev (find_objects kids rxm r ex ws esc false).
Proof. exact find_objects_reverse. Qed.
Print Assumptions C04_find_objects_reverse.

Theorem C04_find_objects_nodup :
  forall (kids : list (list nat)) (rxm : nat -> nat -> nat -> bool) (r : nat) (ex ws esc rv : bool),
  List.NoDup (find_objects kids rxm r ex ws esc rv).
Proof. exact find_objects_nodup. Qed.
Print Assumptions C04_find_objects_nodup.

Theorem C04_ccp_re_search_children_spec :
  forall (kids : list (list nat)) (par : nat -> nat) (rxm : nat -> nat -> nat -> bool)
  (r : nat) (recurse : bool),
  ccp_re_search_children kids par rxm r recurse =
  List.filter (fun l : nat => (rxm 0 r l && (recurse || PeanoNat.Nat.eqb (par l) l))%bool)
  (List.seq 0 (length kids)).
Proof. exact ccp_re_search_children_spec. Qed.
Print Assumptions C04_ccp_re_search_children_spec.

(* ---- branch search (find_object_branches) ---- *)
Theorem C04_find_object_branches_spec :
  forall (kids : list (list nat)) (tru : nat -> bool) (rxm : nat -> nat -> nat -> bool)
  (rs : list nat) (empty rv : bool),
  find_object_branches kids tru rxm rs empty rv =
  (if rv then List.rev (A:=list elt) else fun l : list (list elt) => l)
  ((if empty then fun l : list (list elt) => l else List.filter (List.forallb (elt_truthy tru)))
  (chains kids rxm rs)).
Proof. exact find_object_branches_spec. Qed.
Print Assumptions C04_find_object_branches_spec.

Theorem C04_branches_complete_iff :
  forall (kids : list (list nat)) (tru : nat -> bool) (rxm : nat -> nat -> nat -> bool),
  BlankOK kids tru ->
  forall (rs : list nat) (b : list elt),
  2 <= length rs ->
  List.In b (find_object_branches kids tru rxm rs false false) <->
  (exists ls : list nat, b = List.map Some ls /\ is_chain kids rxm rs ls).
Proof. exact branches_complete_iff. Qed.
Print Assumptions C04_branches_complete_iff.

Theorem C04_chains_complete :
  forall (kids : list (list nat)) (rxm : nat -> nat -> nat -> bool) (rs ls : list nat),
  List.In (List.map Some ls) (chains kids rxm rs) <-> is_chain kids rxm rs ls.
Proof. exact chains_complete. Qed.
Print Assumptions C04_chains_complete.

Theorem C04_branches_padded_length :
  forall (kids : list (list nat)) (tru : nat -> bool) (rxm : nat -> nat -> nat -> bool)
  (rs : list nat) (rv : bool) (b : list elt),
  List.In b (find_object_branches kids tru rxm rs true rv) -> length b = length rs.
Proof. exact branches_padded_length. Qed.
Print Assumptions C04_branches_padded_length.

Theorem C04_ext_padded :
  forall (kids : list (list nat)) (rxm : nat -> nat -> nat -> bool) (rs : list nat)
  (prev : elt) (b : list elt), List.In b (ext kids rxm rs prev) <-> padded_from kids rxm prev rs b.
Proof. exact ext_padded. Qed.
Print Assumptions C04_ext_padded.

(* ---- list forms of find_parent_objects / find_child_objects ---- *)
Theorem C04_parents_list_single :
  forall (kids : list (list nat)) (tru : nat -> bool) (rxm : nat -> nat -> nat -> bool) (r : nat),
  find_parent_objects_list kids tru rxm (r :: nil) = List.filter (rxm 0 r) (List.seq 0 (length kids)).
Proof. exact parents_list_single. Qed.
Print Assumptions C04_parents_list_single.

Theorem C04_parents_list_sorted :
  forall (kids : list (list nat)) (tru : nat -> bool) (rxm : nat -> nat -> nat -> bool) (rs : list nat),
  Sorted.StronglySorted lt (find_parent_objects_list kids tru rxm rs).
Proof. exact parents_list_sorted. Qed.
Print Assumptions C04_parents_list_sorted.

Theorem C04_parents_list_members :
  forall (kids : list (list nat)) (tru : nat -> bool) (rxm : nat -> nat -> nat -> bool),
  BlankOK kids tru ->
  forall (rs : list nat) (x : nat),
  2 <= length rs ->
  List.In x (find_parent_objects_list kids tru rxm rs) <->
  (exists ls : list nat, is_chain kids rxm rs (x :: ls)).
Proof. exact parents_list_members. Qed.
Print Assumptions C04_parents_list_members.

Theorem C04_children_list_sorted :
  forall (kids : list (list nat)) (tru : nat -> bool) (rxm : nat -> nat -> nat -> bool) (rs : list nat),
  Sorted.StronglySorted lt (find_child_objects_list kids tru rxm rs).
Proof. exact children_list_sorted. Qed.
Print Assumptions C04_children_list_sorted.

Theorem C04_children_list_members :
  forall (kids : list (list nat)) (tru : nat -> bool) (rxm : nat -> nat -> nat -> bool),
  BlankOK kids tru ->
  forall (rs : list nat) (x : nat),
  2 <= length rs ->
  List.In x (find_child_objects_list kids tru rxm rs) <->
  (exists ls : list nat, is_chain kids rxm rs (ls ++ x :: nil)).
Proof. exact children_list_members. Qed.
Print Assumptions C04_children_list_members.

(* ---- descendants (BaseCfgLine.all_children) ---- *)
Theorem C04_In_all_children :
  forall kids : list (list nat),
  WF kids -> forall p x : nat, List.In x (all_children kids p) <-> Desc kids p x.
Proof. exact In_all_children. Qed.
Print Assumptions C04_In_all_children.

Theorem C04_all_children_sorted :
  forall (kids : list (list nat)) (p : nat), Sorted.StronglySorted le (all_children kids p).
Proof. exact all_children_sorted. Qed.
Print Assumptions C04_all_children_sorted.

Theorem C04_Desc_gt :
  forall kids : list (list nat), WF kids -> forall p x : nat, Desc kids p x -> p < x < nlines kids.
Proof. exact Desc_gt. Qed.
Print Assumptions C04_Desc_gt.

(* ---- two-argument forms ---- *)
Theorem C04_parents_2_spec :
  forall (kids : list (list nat)) (rxm : nat -> nat -> nat -> bool) (nometa : nat -> nat -> bool)
  (lit : nat -> nat -> nat -> bool) (p c : nat) (ws recurse esc rv : bool),
  ShortcutOK rxm nometa lit (mode_of false ws esc) c ->
  find_parent_objects_2 kids rxm nometa lit p c ws recurse esc rv =
  List.filter (fun x : nat => List.existsb (rxm (mode_of false ws esc) c) (offspring kids recurse x))
  (find_objects kids rxm p false ws esc rv).
Proof. exact parents_2_spec. Qed.
Print Assumptions C04_parents_2_spec.

Theorem C04_parents_2_members :
  forall (kids : list (list nat)) (rxm : nat -> nat -> nat -> bool) (nometa : nat -> nat -> bool)
  (lit : nat -> nat -> nat -> bool),
  WF kids ->
  forall (p c : nat) (ws recurse esc rv : bool),
  ShortcutOK rxm nometa lit (mode_of false ws esc) c ->
  forall x : nat,
  List.In x (find_parent_objects_2 kids rxm nometa lit p c ws recurse esc rv) <->
  x < length kids /\
  rxm (mode_of false ws esc) p x = true /\
  (exists y : nat, Below kids recurse x y /\ rxm (mode_of false ws esc) c y = true).
Proof. exact parents_2_members. Qed.
Print Assumptions C04_parents_2_members.

Theorem C04_parents_2_sorted :
  forall (kids : list (list nat)) (rxm : nat -> nat -> nat -> bool) (nometa : nat -> nat -> bool)
  (lit : nat -> nat -> nat -> bool) (p c : nat) (ws recurse esc : bool),
  Sorted.StronglySorted lt (find_parent_objects_2 kids rxm nometa lit p c ws recurse esc false).
Proof. exact parents_2_sorted. Qed.
Print Assumptions C04_parents_2_sorted.

Theorem C04_parents_2_reverse :
  forall (kids : list (list nat)) (rxm : nat -> nat -> nat -> bool) (nometa : nat -> nat -> bool)
  (lit : nat -> nat -> nat -> bool) (p c : nat) (ws recurse esc : bool),
  find_parent_objects_2 kids rxm nometa lit p c ws recurse esc true =
  List.rev (find_parent_objects_2 kids rxm nometa lit p c ws recurse esc false).
Proof. exact parents_2_reverse. Qed.
Print Assumptions C04_parents_2_reverse.

Theorem C04_wo_child_2_spec :
  forall (kids : list (list nat)) (rxm : nat -> nat -> nat -> bool) (nometa : nat -> nat -> bool)
  (lit : nat -> nat -> nat -> bool) (p c : nat) (ws recurse esc rv : bool),
  ShortcutOK rxm nometa lit (mode_of false ws esc) c ->
  find_parent_objects_wo_child_2 kids rxm nometa lit p c ws recurse esc rv =
  List.filter
  (fun x : nat => negb (List.existsb (rxm (mode_of false ws esc) c) (offspring kids recurse x)))
  (find_objects kids rxm p false ws esc rv).
Proof. exact wo_child_2_spec. Qed.
Print Assumptions C04_wo_child_2_spec.

Theorem C04_wo_child_2_members :
  forall (kids : list (list nat)) (rxm : nat -> nat -> nat -> bool) (nometa : nat -> nat -> bool)
  (lit : nat -> nat -> nat -> bool),
  WF kids ->
  forall (p c : nat) (ws recurse esc rv : bool),
  ShortcutOK rxm nometa lit (mode_of false ws esc) c ->
  forall x : nat,
  List.In x (find_parent_objects_wo_child_2 kids rxm nometa lit p c ws recurse esc rv) <->
  x < length kids /\
  rxm (mode_of false ws esc) p x = true /\
  ~ (exists y : nat, Below kids recurse x y /\ rxm (mode_of false ws esc) c y = true).
Proof. exact wo_child_2_members. Qed.
Print Assumptions C04_wo_child_2_members.

Theorem C04_wo_child_2_sorted :
  forall (kids : list (list nat)) (rxm : nat -> nat -> nat -> bool) (nometa : nat -> nat -> bool)
  (lit : nat -> nat -> nat -> bool) (p c : nat) (ws recurse esc : bool),
  Sorted.StronglySorted lt (find_parent_objects_wo_child_2 kids rxm nometa lit p c ws recurse esc false).
Proof. exact wo_child_2_sorted. Qed.
Print Assumptions C04_wo_child_2_sorted.

Theorem C04_wo_child_2_reverse :
  forall (kids : list (list nat)) (rxm : nat -> nat -> nat -> bool) (nometa : nat -> nat -> bool)
  (lit : nat -> nat -> nat -> bool) (p c : nat) (ws recurse esc : bool),
  find_parent_objects_wo_child_2 kids rxm nometa lit p c ws recurse esc true =
  List.rev (find_parent_objects_wo_child_2 kids rxm nometa lit p c ws recurse esc false).
Proof. exact wo_child_2_reverse. Qed.
Print Assumptions C04_wo_child_2_reverse.

Theorem C04_parents_partition :
  forall (kids : list (list nat)) (rxm : nat -> nat -> nat -> bool) (nometa : nat -> nat -> bool)
  (lit : nat -> nat -> nat -> bool) (p c : nat) (ws recurse esc : bool) (x : nat),
  List.In x (find_objects kids rxm p false ws esc false) <->
  List.In x (find_parent_objects_2 kids rxm nometa lit p c ws recurse esc false) \/
  List.In x (find_parent_objects_wo_child_2 kids rxm nometa lit p c ws recurse esc false).
Proof. exact parents_partition. Qed.
Print Assumptions C04_parents_partition.

Theorem C04_children_2_sorted :
  forall (kids : list (list nat)) (rxm ne : nat -> nat -> nat -> bool) (p c : nat)
  (ws recurse esc rv : bool),
  Sorted.StronglySorted lt (find_child_objects_2 kids rxm ne p c ws recurse esc rv).
Proof. exact children_2_sorted. Qed.
Print Assumptions C04_children_2_sorted.

Theorem C04_children_2_members :
  forall (kids : list (list nat)) (rxm ne : nat -> nat -> nat -> bool),
  WF kids ->
  forall (p c : nat) (ws recurse esc rv : bool),
  NonEmptyOK rxm ne (mode_of false ws esc) c ->
  forall x : nat,
  List.In x (find_child_objects_2 kids rxm ne p c ws recurse esc rv) <->
  rxm (mode_of false ws esc) c x = true /\
  (exists y : nat, y < length kids /\ rxm (mode_of false ws esc) p y = true /\ Below kids recurse y x).
Proof. exact children_2_members. Qed.
Print Assumptions C04_children_2_members.

(* ---- list form of length 2 = two-argument form at recurse=False ---- *)
Theorem C04_list_eq_2arg_parents :
  forall (kids : list (list nat)) (tru : nat -> bool) (rxm : nat -> nat -> nat -> bool)
  (nometa : nat -> nat -> bool) (lit : nat -> nat -> nat -> bool),
  BlankOK kids tru ->
  forall p c : nat,
  ShortcutOK rxm nometa lit 0 c ->
  find_parent_objects_list kids tru rxm (p :: c :: nil) =
  find_parent_objects_2 kids rxm nometa lit p c false false false false.
Proof. exact list_eq_2arg_parents. Qed.
Print Assumptions C04_list_eq_2arg_parents.

Theorem C04_list_eq_2arg_children :
  forall (kids : list (list nat)) (tru : nat -> bool) (rxm ne : nat -> nat -> nat -> bool),
  BlankOK kids tru ->
  forall p c : nat,
  NonEmptyOK rxm ne 0 c ->
  find_child_objects_list kids tru rxm (p :: c :: nil) =
  find_child_objects_2 kids rxm ne p c false false false false.
Proof. exact list_eq_2arg_children. Qed.
Print Assumptions C04_list_eq_2arg_children.

Theorem C04_wo_child_list_refuted :
  exists
  (kids : list (list nat)) (rxm : nat -> nat -> nat -> bool) (nometa : nat -> nat -> bool)
  (lit : nat -> nat -> nat -> bool) (p c : nat) (c2 : option nat),
  find_parent_objects_wo_child_list_impl kids rxm nometa lit p c2 <>
  Some (find_parent_objects_wo_child_list kids rxm nometa lit p c).
Proof. exact wo_child_list_refuted. Qed.
Print Assumptions C04_wo_child_list_refuted.

Theorem C04_children_2_needs_nonempty :
  exists (kids : list (list nat)) (tru : nat -> bool) (rxm ne : nat -> nat -> nat -> bool)
  (p c : nat),
  find_child_objects_2 kids rxm ne p c false false false false <>
  find_child_objects_list kids tru rxm (p :: c :: nil).
Proof. exact children_2_needs_nonempty. Qed.
Print Assumptions C04_children_2_needs_nonempty.

(* ---- single-line API (BaseCfgLine.re_search / re_search_children / has_child_with) ---- *)
Theorem C04_re_search_sound :
  forall (rxm : nat -> nat -> nat -> bool) (nometa : nat -> nat -> bool)
  (lit : nat -> nat -> nat -> bool) (md r : nat),
  ShortcutOK rxm nometa lit md r -> forall l : nat, re_search rxm nometa lit md r l = rxm md r l.
Proof. exact re_search_sound. Qed.
Print Assumptions C04_re_search_sound.

Theorem C04_obj_re_search_children_spec :
  forall (kids : list (list nat)) (rxm : nat -> nat -> nat -> bool) (nometa : nat -> nat -> bool)
  (lit : nat -> nat -> nat -> bool) (md r : nat) (recurse : bool) (p : nat),
  ShortcutOK rxm nometa lit md r ->
  obj_re_search_children kids rxm nometa lit md r recurse p =
  List.filter (rxm md r) (offspring kids recurse p).
Proof. exact obj_re_search_children_spec. Qed.
Print Assumptions C04_obj_re_search_children_spec.

Theorem C04_has_child_with_spec :
  forall (kids : list (list nat)) (rxm : nat -> nat -> nat -> bool) (nometa : nat -> nat -> bool)
  (lit : nat -> nat -> nat -> bool),
  WF kids ->
  forall (r : nat) (allc : bool) (p : nat),
  ShortcutOK rxm nometa lit 0 r ->
  has_child_with kids rxm nometa lit r allc p = true <->
  (exists x : nat, Below kids allc p x /\ rxm 0 r x = true).
Proof. exact has_child_with_spec. Qed.
Print Assumptions C04_has_child_with_spec.

(* ---- a strictly ascending result is determined by its set of members ---- *)
Theorem C04_sorted_lt_unique :
  forall l1 l2 : list nat,
  Sorted.StronglySorted lt l1 ->
  Sorted.StronglySorted lt l2 -> (forall x : nat, List.In x l1 <-> List.In x l2) -> l1 = l2.
Proof. exact sorted_lt_unique. Qed.
Print Assumptions C04_sorted_lt_unique.
