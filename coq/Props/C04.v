(* C04 — searches return exactly the matching lines, ordered and de-duplicated. *)
From Coq Require Import List Arith Bool.
Require Import CCP.Model.Search CCP.Proofs.C04Proofs.
Import ListNotations.

Theorem C04_find_objects_spec : forall kids rxm r ex ws esc rv,
  find_objects kids rxm r ex ws esc rv =
  (if rv then @rev nat else (fun l => l)) (filter (rxm (mode_of ex ws esc) r) (seq 0 (length kids))).
Proof. exact find_objects_spec. Qed.
Print Assumptions C04_find_objects_spec.
