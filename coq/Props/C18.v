(* C18 — the command-line greps are order-preserving filters.
   Statements are about Model/Grep.v (the loops of cli_script.py with oracle answers for address
   parsing/rendering and regex search); they hold for ALL word lists, subnet lists and oracle answers.
   keep / rend / uniq / line_kept are defined in Proofs/C18Proofs.v:
     keep o subs w  = some requested subnet contains the parsed word and no exclusion applies
     rend o subs w  = the address / CIDR address / network rendering selected by the options
     uniq l         = l with later duplicates removed (first occurrences keep their order)
   The argparse/dispatch and parent/child/branch/diff clause is decided by test only (harness aux). *)
From Coq Require Import ZArith NArith List Bool.
Require Import CCP.Lib.PyStr CCP.Lib.Res CCP.Model.IPRef CCP.Model.Grep CCP.Proofs.C18Proofs.
Import ListNotations.

(* without --unique: exactly the kept words, in input order, once per occurrence *)
Theorem C18_ipgrep_filter : forall o subs ws, o_unique o = false ->
  ipgrep_words o subs ws = map (rend o subs) (filter (keep o subs) ws).
Proof. exact ipgrep_filter. Qed.
Print Assumptions C18_ipgrep_filter.

(* "kept" = the word parses in the family of a requested subnet that contains it, and is not excluded *)
Theorem C18_keep_spec : forall o subs w,
  keep o subs w = true <->
  exists f p, first_match subs w = Some (f, p) /\ excluded o f p = false /\ parse_for f w = Some p /\
              exists s, In s subs /\ s_fam s = f /\ contains_ref (famW f) (s_obj s) (p_obj p) = true.
Proof. exact keep_spec. Qed.
Print Assumptions C18_keep_spec.

(* containment is prefix containment (C12) for well-formed values *)
Theorem C18_keep_subnet_spec : forall o subs w, keep o subs w = true ->
  exists f p s, parse_for f w = Some p /\ In s subs /\ s_fam s = f /\
    (wf (famW f) (s_obj s) -> wf (famW f) (p_obj p) -> subnet_spec (famW f) (s_obj s) (p_obj p)).
Proof. exact keep_subnet_spec. Qed.
Print Assumptions C18_keep_subnet_spec.

(* a parsable, un-excluded word that is not printed lies in no requested subnet of its family *)
Theorem C18_dropped_word_outside : forall o subs w f p,
  parse_for f w = Some p -> (forall g q, parse_for g w = Some q -> excluded o g q = false) ->
  keep o subs w = false ->
  forall s, In s subs -> s_fam s = f -> contains_ref (famW f) (s_obj s) (p_obj p) = false.
Proof. exact keep_false_no_subnet. Qed.
Print Assumptions C18_dropped_word_outside.

(* the result does not depend on the iteration order of the subnet set, nor on duplicates in it *)
Theorem C18_subnet_order_irrelevant : forall subs subs' w,
  single_family w -> (forall s, In s subs <-> In s subs') -> first_match subs w = first_match subs' w.
Proof. exact first_match_order_indep. Qed.
Print Assumptions C18_subnet_order_irrelevant.

(* --unique: the same list with later duplicates removed *)
Theorem C18_ipgrep_unique : forall o subs ws, o_unique o = true ->
  ipgrep_words o subs ws = uniq (ipgrep_words (set_unique false o) subs ws).
Proof. exact ipgrep_unique. Qed.
Print Assumptions C18_ipgrep_unique.

Theorem C18_uniq_nodup : forall l, NoDup (uniq l).
Proof. exact uniq_nodup. Qed.
Print Assumptions C18_uniq_nodup.

Theorem C18_uniq_members : forall l x, In x (uniq l) <-> In x l.
Proof. exact uniq_in. Qed.
Print Assumptions C18_uniq_members.

Theorem C18_uniq_first_occurrence : forall a x, ~ In x a -> forall b, exists t, uniq (a ++ x :: b) = uniq a ++ x :: t.
Proof. exact uniq_first_occurrence. Qed.
Print Assumptions C18_uniq_first_occurrence.

(* --line: exactly the lines holding a kept word and no excluded matching word, in input order *)
Theorem C18_ipgrep_line_mode : forall o subs ls,
  ipgrep_lines o subs ls = map l_text (filter (fun l => line_kept o subs (l_words l)) ls).
Proof. exact ipgrep_line_mode. Qed.
Print Assumptions C18_ipgrep_line_mode.

Theorem C18_line_kept_spec : forall o subs ws,
  line_kept o subs ws = true <->
  (exists w s p, In w ws /\ In s subs /\ matches s w = Some p /\ excluded o (s_fam s) p = false) /\
  (forall w s p, In w ws -> In s subs -> matches s w = Some p -> excluded o (s_fam s) p = false).
Proof. exact line_kept_spec. Qed.
Print Assumptions C18_line_kept_spec.

(* the command as a whole, for consistent options *)
Theorem C18_ipgrep_words_cli : forall o sarg v4 v6 subs ws,
  effective_subnets sarg v4 v6 = Some subs -> o_line o = false ->
  ipgrep o sarg v4 v6 (In_words ws) = Some (ipgrep_words (norm_opts o) subs ws).
Proof. exact ipgrep_words_cli. Qed.
Print Assumptions C18_ipgrep_words_cli.

Theorem C18_ipgrep_lines_cli : forall o sarg v4 v6 subs ls,
  effective_subnets sarg v4 v6 = Some subs -> o_line o = true -> o_unique o = false -> o_cidr o = false -> o_nets o = false ->
  ipgrep o sarg v4 v6 (In_lines ls) = Some (ipgrep_lines (norm_opts o) subs ls).
Proof. exact ipgrep_lines_cli. Qed.
Print Assumptions C18_ipgrep_lines_cli.

(* macgrep *)
Theorem C18_macgrep_filter : forall ws, macgrep_words false ws = map m_text (filter mac_match ws).
Proof. exact macgrep_filter. Qed.
Print Assumptions C18_macgrep_filter.

Theorem C18_macgrep_unique : forall ws, macgrep_words true ws = uniq (macgrep_words false ws).
Proof. exact macgrep_unique. Qed.
Print Assumptions C18_macgrep_unique.

Theorem C18_macgrep_line_mode : forall ls,
  macgrep_lines ls = map ml_text (filter (fun l => existsb mac_match (ml_words l)) ls).
Proof. exact macgrep_line_mode. Qed.
Print Assumptions C18_macgrep_line_mode.

(* a MAC word matches: it is a valid MAC/EUI-64 and some regex hits one of its four spellings *)
Theorem C18_mac_match_spec : forall w,
  mac_match w = true <-> m_valid w = true /\ exists h, In h (m_hits w) /\ hit4 h = true.
Proof. exact mac_match_spec. Qed.
Print Assumptions C18_mac_match_spec.
