(* C19 — Typed IOS interface/route models report what the text says; factory transparent.
   PARTIAL claim.  The statements are about the token-level accessor model (Model/IntfCfg.v): the
   regular expressions of models_cisco.py are written down as item sequences with a deterministic
   matcher; Python's `re` is not modelled and the regexes are not translated from the source.  The
   model is tied to the real IOSIntfLine / IOSRouteLine accessors by the correspondence streams of
   harness/props/c19.py; factory transparency is tested on the real code only.

   Vocabulary:  mk_stanza h attrs   an interface stanza: header h, then the attribute lines `attrs`
                                    IN ANY ORDER (the theorems quantify over all lists, hence over all
                                    permutations and interleavings), `A_other l` being an unrelated line
                render a            the text of attribute line a, indented by S n blanks
                valid a             side conditions (non-empty words, well-formed quads, and for
                                    A_other: none of the modelled patterns matches the line)
                unrelated h         the header is not mistaken for an attribute line *)
From Coq Require Import NArith ZArith List Bool.
Require Import CCP.Lib.PyStr CCP.Model.IntfCfg CCP.Proofs.C19Proofs.
Import ListNotations.

(* --- first match in family order: value of the only matching line, default when none matches *)
Theorem C19_first_match_unique : forall (A : Type) (f : str -> option A) (ls : list str) (v : A),
  (exists l, In l ls /\ f l <> None) -> (forall l v', In l ls -> f l = Some v' -> v' = v) -> first_some f ls = Some v.
Proof. exact @first_some_unique. Qed.
Print Assumptions C19_first_match_unique.
Theorem C19_first_match_absent : forall (A : Type) (f : str -> option A) (ls : list str),
  (forall l, In l ls -> f l = None) -> first_some f ls = None.
Proof. exact @first_some_none. Qed.
Print Assumptions C19_first_match_absent.

(* --- the `interface <name>` header itself is never mistaken for an attribute line *)
Theorem C19_header_unrelated : forall name : str, unrelated (s_interface ++ spc :: name).
Proof. exact header_unrelated. Qed.
Print Assumptions C19_header_unrelated.

(* --- decimal text of a number reads back as that number (int(str(v)) == v) *)
Theorem C19_decimal_roundtrip : forall v : N, py_int (render_dec v) = Some (Z.of_N v).
Proof. exact py_int_render. Qed.
Print Assumptions C19_decimal_roundtrip.

(* --- manual_mtu *)
Theorem C19_mtu_roundtrip : forall h attrs, unrelated h -> Forall valid attrs -> forall v,
  (exists n, In (A_mtu n v) attrs) -> (forall n' v', In (A_mtu n' v') attrs -> v' = v) ->
  acc_mtu (mk_stanza h attrs) = Some (Z.of_N v).
Proof. exact mtu_present. Qed.
Print Assumptions C19_mtu_roundtrip.
Theorem C19_mtu_default : forall h attrs, unrelated h -> Forall valid attrs ->
  (forall n v, ~ In (A_mtu n v) attrs) -> acc_mtu (mk_stanza h attrs) = Some (-1)%Z.
Proof. exact mtu_absent. Qed.
Print Assumptions C19_mtu_default.

(* --- portchannel_number *)
Theorem C19_portchannel_roundtrip : forall h attrs, unrelated h -> Forall valid attrs -> forall g,
  (exists n m, In (A_channel n g m) attrs) -> (forall n' g' m', In (A_channel n' g' m') attrs -> g' = g) ->
  acc_portchannel (mk_stanza h attrs) = Some (Z.of_N g).
Proof. exact channel_present. Qed.
Print Assumptions C19_portchannel_roundtrip.
Theorem C19_portchannel_default : forall h attrs, unrelated h -> Forall valid attrs ->
  (forall n g m, ~ In (A_channel n g m) attrs) -> acc_portchannel (mk_stanza h attrs) = Some (-1)%Z.
Proof. exact channel_absent. Qed.
Print Assumptions C19_portchannel_default.

(* --- description *)
Theorem C19_description_roundtrip : forall h attrs, unrelated h -> Forall valid attrs -> forall t,
  (exists n, In (A_description n t) attrs) -> (forall n' t', In (A_description n' t') attrs -> t' = t) ->
  acc_description (mk_stanza h attrs) = t.
Proof. exact description_present. Qed.
Print Assumptions C19_description_roundtrip.
Theorem C19_description_default : forall h attrs, unrelated h -> Forall valid attrs ->
  (forall n t, ~ In (A_description n t) attrs) -> acc_description (mk_stanza h attrs) = [].
Proof. exact description_absent. Qed.
Print Assumptions C19_description_default.

(* --- vrf (with or without the leading `ip`) *)
Theorem C19_vrf_roundtrip : forall h attrs, unrelated h -> Forall valid attrs -> forall nm,
  (exists n b, In (A_vrf n b nm) attrs) -> (forall n' b' nm', In (A_vrf n' b' nm') attrs -> nm' = nm) ->
  acc_vrf (mk_stanza h attrs) = nm.
Proof. exact vrf_present. Qed.
Print Assumptions C19_vrf_roundtrip.
Theorem C19_vrf_default : forall h attrs, unrelated h -> Forall valid attrs ->
  (forall n b nm, ~ In (A_vrf n b nm) attrs) -> acc_vrf (mk_stanza h attrs) = [].
Proof. exact vrf_absent. Qed.
Print Assumptions C19_vrf_default.

(* --- is_shutdown *)
Theorem C19_shutdown_iff : forall h attrs, unrelated h -> Forall valid attrs ->
  (acc_shutdown (mk_stanza h attrs) = true <-> exists n, In (A_shutdown n) attrs).
Proof. exact shutdown_iff. Qed.
Print Assumptions C19_shutdown_iff.

(* --- ipv4_addr / ipv4_netmask: the primary address, never a secondary one, wherever it stands *)
Theorem C19_ipv4_roundtrip : forall h attrs, unrelated h -> Forall valid attrs -> forall q m,
  (exists n, In (A_address n q m) attrs) ->
  (forall n' q' m', In (A_address n' q' m') attrs -> q' = q /\ m' = m) ->
  acc_ipv4_addr (mk_stanza h attrs) = render_quad q /\ acc_ipv4_netmask (mk_stanza h attrs) = render_quad m.
Proof. exact address_present. Qed.
Print Assumptions C19_ipv4_roundtrip.
Theorem C19_ipv4_default : forall h attrs, unrelated h -> Forall valid attrs ->
  (forall n q m, ~ In (A_address n q m) attrs) ->
  acc_ipv4_addr (mk_stanza h attrs) = [] /\ acc_ipv4_netmask (mk_stanza h attrs) = [].
Proof. exact address_absent. Qed.
Print Assumptions C19_ipv4_default.

(* --- mask length of each of the 33 contiguous netmasks (finite domain, fully enumerated) *)
Theorem C19_masklength_table : forall n : N, (n <= 32)%N -> masklen_str (mask_text n) = Some (Z.of_N n).
Proof. exact masklen_all. Qed.
Print Assumptions C19_masklength_table.

(* --- switchport word tests over the direct children *)
Theorem C19_switchport_child : forall st l rest, In l (kids st) -> words l = s_switchport :: rest -> acc_is_switchport st = true.
Proof. exact switchport_child. Qed.
Print Assumptions C19_switchport_child.
Theorem C19_access_vlan_roundtrip : forall st n v, In (access_line n v) (kids st) ->
  (forall l, In l (kids st) -> is_access_line l = true -> l = access_line n v) -> acc_access_vlan st = Some (Z.of_N v).
Proof. exact access_vlan_present. Qed.
Print Assumptions C19_access_vlan_roundtrip.
Theorem C19_access_vlan_default : forall st, (forall l, In l (kids st) -> is_access_line l = false) ->
  acc_access_vlan st = Some (if acc_is_switchport st then 1 else -1)%Z.
Proof. exact access_vlan_absent. Qed.
Print Assumptions C19_access_vlan_default.
Theorem C19_native_vlan_roundtrip : forall st n v, In (native_line n v) (kids st) ->
  (forall l, In l (kids st) -> is_native_line l = true -> l = native_line n v) -> acc_native_vlan st = Some (Z.of_N v).
Proof. exact native_vlan_present. Qed.
Print Assumptions C19_native_vlan_roundtrip.
Theorem C19_native_vlan_default : forall st, (forall l, In l (kids st) -> is_native_line l = false) ->
  acc_native_vlan st = Some (if acc_is_switchport st then 1 else -1)%Z.
Proof. exact native_vlan_absent. Qed.
Print Assumptions C19_native_vlan_default.

(* --- allowed-VLAN arithmetic on bit sets: a-b denotes {a..b}; add is union; remove/except is difference *)
Theorem C19_vlan_range_spec : forall a b n : N, N.testbit (range_bits a b) n = ((a <=? n) && (n <=? b))%N.
Proof. exact range_bits_spec. Qed.
Print Assumptions C19_vlan_range_spec.
Theorem C19_vlan_add_spec : forall s t n : N, N.testbit (N.lor s t) n = N.testbit s n || N.testbit t n.
Proof. exact vlan_add_spec. Qed.
Print Assumptions C19_vlan_add_spec.
Theorem C19_vlan_remove_spec : forall s t n : N, N.testbit (N.ldiff s t) n = N.testbit s n && negb (N.testbit t n).
Proof. exact vlan_remove_spec. Qed.
Print Assumptions C19_vlan_remove_spec.

(* --- static routes: a line rendered from a description parses back to the description
       (at least one of interface / next hop present, as IOS requires) *)
Theorem C19_route_roundtrip : forall d : rdesc, rdesc_ok d ->
  exists r, parse_route (render_route d) = Some r /\
    r_vrf r = ostr_ (d_vrf d) /\ r_prefix r = render_quad (d_prefix d) /\ r_mask r = render_quad (d_mask d) /\
    r_nh_intf r = ostr_ (d_intf d) /\ r_nh_addr r = ostr_ (oq (d_nh d)) /\
    r_ad r = Some (match d_ad d with Some a => Z.of_N a | None => 1%Z end) /\
    r_name r = ostr_ (d_name d) /\ r_track r = ostr_ (od (d_track d)) /\ r_tag r = ostr_ (od (d_tag d)).
Proof. exact route_roundtrip. Qed.
Print Assumptions C19_route_roundtrip.
