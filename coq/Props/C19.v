(* C19 — Typed IOS interface/route models report what the text says; factory transparent. *)
From Coq Require Import NArith ZArith List Bool.
Require Import CCP.Lib.PyStr CCP.Model.IntfCfg CCP.Proofs.C19Proofs.
Import ListNotations.

Theorem C19_first_match_absent : forall (A : Type) (f : str -> option A) (ls : list str),
  (forall l, In l ls -> f l = None) -> first_some f ls = None.
Proof. exact @first_some_none. Qed.
Print Assumptions C19_first_match_absent.
