(* C03 -- family relations form a consistent forest.  construct_parents is the parent map built by the constructor (Model/Parse.v: indentation links + banner pass + macro pass); kids = obj.children, and all_children / all_parents / lineage / geneology / family_endpoint / siblings are the derived views as coded (Model/Family.v).  WFmap ps = every parent precedes its child; ancestor = iterated parent. *)
From Coq Require Import List Arith Bool Sorted. Require Import CCP.Lib.PyStr CCP.Model.Links CCP.Model.Parse CCP.Model.Family CCP.Proofs.ParseProofs CCP.Proofs.FamilyProofs CCP.Proofs.C03Proofs. Import ListNotations.

Theorem C03_construct_wf :
  forall o ls, WFmap (construct_parents o ls).
Proof. exact construct_wf. Qed.
Print Assumptions C03_construct_wf.

Theorem C03_construct_forest :
  forall o ls, let ps := construct_parents o ls in (forall i p, parent_of ps i = Some p -> p < i /\ In i (kids ps p) /\ forall q, In i (kids ps q) -> q = p) /\ (forall i, i < length ps -> (parent_of ps i = None <-> forall p, ~ In i (kids ps p))) /\ (forall p, StronglySorted lt (kids ps p) /\ NoDup (kids ps p) /\ forall c, In c (kids ps p) -> p < c).
Proof. exact construct_forest. Qed.
Print Assumptions C03_construct_forest.

Theorem C03_construct_closure :
  forall o ls p x, let ps := construct_parents o ls in (In x (all_children ps p) <-> ancestor ps p x) /\ (In p (all_parents ps x) <-> ancestor ps p x).
Proof. exact construct_closure. Qed.
Print Assumptions C03_construct_closure.

Theorem C03_commit_forest :
  forall o texts, WFmap (construct_parents o texts).
Proof. exact commit_forest. Qed.
Print Assumptions C03_commit_forest.

Theorem C03_kids_spec :
  forall ps p c, In c (kids ps p) <-> nth_error ps c = Some (Some p).
Proof. exact kids_spec. Qed.
Print Assumptions C03_kids_spec.

Theorem C03_kids_ascending :
  forall ps p, StronglySorted lt (kids ps p).
Proof. exact kids_ascending. Qed.
Print Assumptions C03_kids_ascending.

Theorem C03_kids_after_parent :
  forall ps p c, WFmap ps -> In c (kids ps p) -> p < c.
Proof. exact kids_after_parent. Qed.
Print Assumptions C03_kids_after_parent.

Theorem C03_kids_unique_parent :
  forall ps p q c, In c (kids ps p) -> In c (kids ps q) -> p = q.
Proof. exact kids_unique_parent. Qed.
Print Assumptions C03_kids_unique_parent.

Theorem C03_kids_nodup :
  forall ps p, NoDup (kids ps p).
Proof. exact kids_nodup. Qed.
Print Assumptions C03_kids_nodup.

Theorem C03_root_iff_in_no_list :
  forall ps i, i < length ps -> (parent_of ps i = None <-> forall p, ~ In i (kids ps p)).
Proof. exact root_iff_in_no_list. Qed.
Print Assumptions C03_root_iff_in_no_list.

Theorem C03_nonroot_in_parents_list :
  forall ps i p, parent_of ps i = Some p <-> In i (kids ps p).
Proof. exact nonroot_in_parents_list. Qed.
Print Assumptions C03_nonroot_in_parents_list.

Theorem C03_all_parents_spec :
  forall ps i a, WFmap ps -> (In a (all_parents ps i) <-> ancestor ps a i).
Proof. exact all_parents_spec. Qed.
Print Assumptions C03_all_parents_spec.

Theorem C03_all_parents_sorted :
  forall ps i, StronglySorted le (all_parents ps i).
Proof. exact all_parents_sorted. Qed.
Print Assumptions C03_all_parents_sorted.

Theorem C03_all_parents_before :
  forall ps i a, WFmap ps -> In a (all_parents ps i) -> a < i.
Proof. exact all_parents_before. Qed.
Print Assumptions C03_all_parents_before.

Theorem C03_all_children_spec :
  forall ps p x, WFmap ps -> (In x (all_children ps p) <-> ancestor ps p x).
Proof. exact all_children_spec. Qed.
Print Assumptions C03_all_children_spec.

Theorem C03_all_children_sorted :
  forall ps p, StronglySorted le (all_children ps p).
Proof. exact all_children_sorted. Qed.
Print Assumptions C03_all_children_sorted.

Theorem C03_all_children_after :
  forall ps p x, WFmap ps -> In x (all_children ps p) -> p < x.
Proof. exact all_children_after. Qed.
Print Assumptions C03_all_children_after.

Theorem C03_descendants_ancestors_dual :
  forall ps p x, WFmap ps -> (In x (all_children ps p) <-> In p (all_parents ps x)).
Proof. exact descendants_ancestors_dual. Qed.
Print Assumptions C03_descendants_ancestors_dual.

Theorem C03_children_are_descendants :
  forall ps p c, WFmap ps -> In c (kids ps p) -> In c (all_children ps p).
Proof. exact children_are_descendants. Qed.
Print Assumptions C03_children_are_descendants.

Theorem C03_family_endpoint_spec :
  forall ps i, WFmap ps -> (forall x, In x (all_children ps i) -> x <= family_endpoint ps i) /\ (family_endpoint ps i = i \/ In (family_endpoint ps i) (all_children ps i)) /\ i <= family_endpoint ps i.
Proof. exact family_endpoint_spec. Qed.
Print Assumptions C03_family_endpoint_spec.

Theorem C03_geneology_spec :
  forall ps i, geneology ps i = all_parents ps i ++ [i].
Proof. exact geneology_spec. Qed.
Print Assumptions C03_geneology_spec.

Theorem C03_lineage_spec :
  forall ps i x, WFmap ps -> (In x (lineage ps i) <-> ancestor ps x i \/ x = i \/ ancestor ps i x).
Proof. exact lineage_spec. Qed.
Print Assumptions C03_lineage_spec.

Theorem C03_lineage_sorted :
  forall ps i, StronglySorted le (lineage ps i).
Proof. exact lineage_sorted. Qed.
Print Assumptions C03_lineage_sorted.

Theorem C03_siblings_spec :
  forall ps inds i c, In c (siblings ps inds i) <-> In c (kids ps (match parent_of ps i with Some p => p | None => i end)) /\ nth c inds 0 = nth i inds 0.
Proof. exact siblings_spec. Qed.
Print Assumptions C03_siblings_spec.

Theorem C03_has_children_spec :
  forall ps i, has_children ps i = true <-> exists c, parent_of ps c = Some i.
Proof. exact has_children_spec. Qed.
Print Assumptions C03_has_children_spec.

Theorem C03_is_child_spec :
  forall ps i, is_child ps i = true <-> exists p, parent_of ps i = Some p.
Proof. exact is_child_spec. Qed.
Print Assumptions C03_is_child_spec.

Theorem C03_all_children_nodup :
  forall ps p, WFmap ps -> NoDup (all_children ps p).
Proof. exact all_children_nodup. Qed.
Print Assumptions C03_all_children_nodup.

Theorem C03_all_children_strictly_ascending :
  forall ps p, WFmap ps -> StronglySorted lt (all_children ps p).
Proof. exact all_children_strictly_ascending. Qed.
Print Assumptions C03_all_children_strictly_ascending.
