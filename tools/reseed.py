#!/usr/bin/env python3
"""Re-run the registered quick checks against already confirmed seeded regressions (seeded/<id>/patch.diff).
usage: tools/reseed.py [<seed-id> ...]      (default: all Cnn-m* seeds)
Applies the patch to a scratch copy of /repo (never to /repo), runs `VERIF_REPO=<copy> ./check <P> --tier quick` for the seed's
property and updates meta.json["checks"][P] (+ "rechecked_at_verif_commit")."""
import glob, json, os, shutil, subprocess, sys, time
ids = sys.argv[1:] or sorted(os.path.basename(d.rstrip("/")) for d in glob.glob("/verif/seeded/C*-m*/"))
head = subprocess.run(["git", "-C", "/verif", "rev-parse", "--short", "HEAD"], stdout=subprocess.PIPE, text=True).stdout.strip()
missed = []
for sid in ids:
    d = "/verif/seeded/%s" % sid
    meta = json.load(open(os.path.join(d, "meta.json")))
    props = list(meta.get("checks", {}).keys()) or [meta["property"]]
    scratch = "/tmp/ccp_reseed_%s" % sid
    shutil.rmtree(scratch, ignore_errors=True)
    subprocess.run(["cp", "-r", "/repo", scratch], check=True)
    subprocess.run(["git", "-C", scratch, "checkout", "-q", "--", "."], check=True)
    a = subprocess.run(["git", "-C", scratch, "apply", os.path.join(d, "patch.diff")], stdout=subprocess.PIPE, stderr=subprocess.STDOUT, text=True)
    if a.returncode != 0:
        print(sid, "PATCH NO LONGER APPLIES", a.stdout[-200:]); missed.append(sid); shutil.rmtree(scratch, ignore_errors=True); continue
    res = {}
    for p in props:
        t = time.time()
        r = subprocess.run(["./check", p, "--tier", "quick"], cwd="/verif", env={**os.environ, "VERIF_REPO": scratch}, stdout=subprocess.PIPE, stderr=subprocess.STDOUT, text=True)
        lines = [l for l in r.stdout.splitlines() if l.startswith("VIOLATION") or l.startswith(p + " ")]
        replay = None
        for l in lines:
            if l.startswith("VIOLATION") and "replay=" in l:
                try:
                    j = json.load(open(l.split("replay=")[1].split()[0]))
                    replay = {"stream": j.get("stream"), "detail": str(j.get("detail"))[:500], "no_failing_input_found": j.get("no_failing_input_found", False)}
                except Exception:
                    pass
        det = r.returncode == 1 and any(l.startswith("VIOLATION property=%s" % p) for l in lines)
        res[p] = {"rc": r.returncode, "detected": det, "lines": lines, "replay": replay, "wall_s": round(time.time() - t, 1)}
    shutil.rmtree(scratch, ignore_errors=True)
    meta.setdefault("checks", {}).update(res)
    meta["rechecked_at_verif_commit"] = head
    json.dump(meta, open(os.path.join(d, "meta.json"), "w"), indent=1)
    ok = any(v["detected"] for v in res.values())
    if not ok:
        missed.append(sid)
    print(sid, {p: v["detected"] for p, v in res.items()}, flush=True)
print("missed:", missed)
