#!/bin/bash
# regenerate coq/Props/C06.v (lemmas proved inside a Section need their type variable re-bound)
cd /verif && python3 harness/mkprops.py C06 Proofs/SessionProofs.v,Proofs/InsertProofs.v 'insert_at_length|insert_then_remove|insert_at_nth|remove_idx_spec|keep_idx_spec|set_nth_spec|insert_flagged_|effect_|delete_removes_family|py_insert_index_le|py_pop_index_lt,,insertion_preserves_parents|parents_before_insertion|bootstrap_insertion' "C06 -- edits change exactly the targeted lines.  text_effect (Model/Session.v) is the text effect of each editing operation on a committed state, expressed with the plain list operations insert_at / remove_idx / set_nth / insert_flagged; the theorems are their frame properties for every list and target: exactly one line is added (removing it gives the old list back), delete keeps exactly the lines that are neither the target nor its descendants, set_nth changes one line, regex insertion adds one copy per match.  insertion_preserves_parents: an inserted line leaves every existing parent link alone when (A) every later line it could capture is already shielded by a configuration line after the insertion point and (B) the comment exception of the line directly below does not flip -- F36 violates (A), F35 violates (B).  append_to_family: the observed index must satisfy atf_ok (PARTIAL: checked per case, see DESIGN.md 9.2)." "From Coq Require Import List Arith Bool NArith ZArith. Require Import CCP.Lib.Res CCP.Lib.PyStr CCP.Model.Links CCP.Model.Parse CCP.Model.Family CCP.Model.Session CCP.Proofs.ParseProofs CCP.Proofs.SessionProofs CCP.Proofs.InsertProofs. Import ListNotations."
python3 - <<'PY'
import re
p='/verif/coq/Props/C06.v'; s=open(p).read()
for n in ["insert_at_length","insert_then_remove","insert_at_nth","remove_idx_spec","keep_idx_spec","set_nth_spec","insert_flagged_length","insert_flagged_frame"]:
    s=re.sub(r"(Theorem C06_%s :\n  )forall "%n, r"\1forall (A : Type) ", s)
    s=s.replace("Proof. exact %s. Qed."%n, "Proof. exact (fun A => @%s A). Qed."%n)
open(p,'w').write(s)
PY
