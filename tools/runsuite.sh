#!/bin/bash
# usage: runsuite.sh <repo copy> ; prints number of stable tests now failing
export RS_DIR="$1"
cd "$1" && PYTHONPATH="$1" /venv/bin/python -m pytest -q -p no:cacheprovider --timeout=900 --continue-on-collection-errors --junitxml="$1/.rs_run.xml" >/dev/null 2>&1
python3 - <<'PY'
import xml.etree.ElementTree as ET, json, os
t=ET.parse(os.environ['RS_DIR']+'/.rs_run.xml'); s=set()
for tc in t.iter('testcase'):
    if not any(ch.tag in ('failure','error','skipped') for ch in tc): s.add(tc.get('classname')+'::'+tc.get('name'))
st=set(json.load(open('/root/.vp/BASELINE.json'))['stable_pass'])
miss=sorted(st-s)
print('stable tests now failing:', len(miss))
for m in miss[:40]: print('  ', m)
PY
