#!/usr/bin/env python3
"""Regenerate the 'seeded regressions' table of DESIGN.md (between the SEEDED markers) from seeded/*/meta.json."""
import glob, json, os, re
rows = []
for d in sorted(glob.glob("/verif/seeded/*/")):
    mp = os.path.join(d, "meta.json")
    if not os.path.exists(mp):
        continue
    m = json.load(open(mp))
    sid = os.path.basename(d.rstrip("/"))
    if sid.startswith("refactor-"):
        continue
    checks = m.get("checks", {})
    det = ", ".join("%s %s" % (p, "caught" + (" (no-failing-input-found)" if (c.get("replay") or {}).get("no_failing_input_found") else (" (stream %s)" % (c.get("replay") or {}).get("stream")) if c["detected"] else "") if c["detected"] else "MISSED") for p, c in checks.items())
    summ = re.sub(r"\s+", " ", str(m.get("summary", "")))[:230].replace("|", "/")
    needs = re.sub(r"\s+", " ", str(m.get("needs", "")))[:200].replace("|", "/")
    rows.append("| %s | %s | %s | %s | %s |" % (sid, m.get("property"), summ, needs, det))
table = "| seed | property | change (confirmed: demo fails with it, passes without; 512 baseline tests still pass) | needs | quick check |\n|---|---|---|---|---|\n" + "\n".join(rows)
p = "/verif/DESIGN.md"; s = open(p).read()
a, b = "<!-- SEEDED-BEGIN -->", "<!-- SEEDED-END -->"
if a in s:
    s = s[:s.index(a) + len(a)] + "\n" + table + "\n" + s[s.index(b):]
open(p, "w").write(s)
rr = []
for d in sorted(glob.glob("/verif/seeded/refactor-*/")):
    mp = os.path.join(d, "meta.json")
    if not os.path.exists(mp):
        continue
    m = json.load(open(mp))
    sid = os.path.basename(d.rstrip("/"))
    summ = re.sub(r"\s+", " ", str(m.get("summary", "")))[:330].replace("|", "/")
    suite = "; ".join(m.get("what_i_ran", {}).get("suite", []))
    det = ", ".join("%s %s" % (p_, "ALARM" if c.get("alarm") else "quiet") for p_, c in m.get("checks", {}).items())
    rr.append("| %s | %s | %s | %s |" % (sid, summ, suite, det))
rt = "| refactoring | change (behaviour-preserving; argued by its author, suite re-run by me) | suite | quick checks run against it |\n|---|---|---|---|\n" + "\n".join(rr)
a, b = "<!-- REFAC-BEGIN -->", "<!-- REFAC-END -->"
s = open(p).read()
if a in s:
    s = s[:s.index(a) + len(a)] + "\n" + rt + "\n" + s[s.index(b):]
    open(p, "w").write(s)
print(len(rows), "rows;", len(rr), "refactorings")
