#!/bin/bash
# run every registered quick (or $1) check once against /repo and print the summary lines
tier=${1:-quick}
cd /verif
for p in $(python3 -c "import json; print(' '.join(c['property_id'] for c in json.load(open('MANIFEST.json'))['checks']))"); do
  start=$(date +%s)
  out=$(timeout 3000 ./check $p --tier $tier 2>&1)
  rc=$?
  echo "$out" | grep -E "^(VIOLATION|KNOWN-FINDING|$p )" | cut -c1-220
  echo "   -> $p rc=$rc"
done
