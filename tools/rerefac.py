#!/usr/bin/env python3
"""Re-run quick checks against the stored behaviour-preserving refactorings (seeded/refactor-*/patch.diff); they must stay quiet.
usage: tools/rerefac.py [<refactor-id> ...]"""
import glob, json, os, shutil, subprocess, sys
ids = sys.argv[1:] or sorted(os.path.basename(d.rstrip("/")) for d in glob.glob("/verif/seeded/refactor-*/"))
alarms = []
for rid in ids:
    d = "/verif/seeded/%s" % rid
    meta = json.load(open(os.path.join(d, "meta.json")))
    props = list(meta.get("checks", {}).keys())
    scratch = "/tmp/ccp_rerefac_%s" % rid
    shutil.rmtree(scratch, ignore_errors=True)
    subprocess.run(["cp", "-r", "/repo", scratch], check=True)
    subprocess.run(["git", "-C", scratch, "checkout", "-q", "--", "."], check=True)
    a = subprocess.run(["git", "-C", scratch, "apply", os.path.join(d, "patch.diff")], stdout=subprocess.PIPE, stderr=subprocess.STDOUT, text=True)
    if a.returncode != 0:
        print(rid, "patch no longer applies:", a.stdout[-150:]); shutil.rmtree(scratch, ignore_errors=True); continue
    res = {}
    for p in props:
        r = subprocess.run(["./check", p, "--tier", "quick"], cwd="/verif", env={**os.environ, "VERIF_REPO": scratch}, stdout=subprocess.PIPE, stderr=subprocess.STDOUT, text=True)
        lines = [l for l in r.stdout.splitlines() if l.startswith("VIOLATION") or l.startswith(p + " ")]
        res[p] = {"rc": r.returncode, "alarm": r.returncode != 0, "lines": lines}
        if r.returncode != 0:
            alarms.append((rid, p))
    shutil.rmtree(scratch, ignore_errors=True)
    meta["checks"] = res
    json.dump(meta, open(os.path.join(d, "meta.json"), "w"), indent=1)
    print(rid, {p: ("ALARM" if v["alarm"] else "quiet") for p, v in res.items()}, flush=True)
print("alarms:", alarms)
