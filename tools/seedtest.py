#!/usr/bin/env python3
"""Confirm a seeded regression and run the registered checks against it.
usage: tools/seedtest.py <seed-id> <worktree-dir> <k> <property> [more properties to run ...]
Copies mutation_k.diff/demo_k.py/meta_k.json into /verif/seeded/<seed-id>/, verifies on a scratch copy of
/repo: demo passes pristine, fails with the patch, the baseline suite still passes; then runs
`VERIF_REPO=<scratch> ./check <P> --tier quick` for each property and records the verdicts in meta.json."""
import json, os, shutil, subprocess, sys, time
sid, wt, k, *props = sys.argv[1:]
dst = "/verif/seeded/%s" % sid
os.makedirs(dst, exist_ok=True)
shutil.copy(os.path.join(wt, "mutation_%s.diff" % k), os.path.join(dst, "patch.diff"))
shutil.copy(os.path.join(wt, "demo_%s.py" % k), os.path.join(dst, "demo.py"))
meta = json.load(open(os.path.join(wt, "meta_%s.json" % k)))
scratch = "/tmp/ccp_seedtest_%s" % sid
shutil.rmtree(scratch, ignore_errors=True)
subprocess.run(["cp", "-r", "/repo", scratch], check=True)
subprocess.run(["git", "-C", scratch, "checkout", "-q", "--", "."], check=True)
def demo():
    src = open(os.path.join(dst, "demo.py")).read().replace(wt, scratch)
    p = os.path.join(scratch, "_demo.py"); open(p, "w").write(src)
    r = subprocess.run(["/venv/bin/python", "_demo.py"], cwd=scratch, env={**os.environ, "PYTHONPATH": scratch, "PYTHONWARNINGS": "ignore", "PYTHONHASHSEED": "0"},
                       stdout=subprocess.PIPE, stderr=subprocess.STDOUT, text=True)
    os.remove(p)
    return r.returncode, r.stdout[-600:]
ran = {}
rc0, out0 = demo(); ran["demo_pristine_rc"] = rc0
a = subprocess.run(["git", "-C", scratch, "apply", os.path.join(dst, "patch.diff")], stdout=subprocess.PIPE, stderr=subprocess.STDOUT, text=True)
ran["patch_applies"] = a.returncode == 0
rc1, out1 = demo(); ran["demo_mutated_rc"] = rc1; ran["demo_mutated_out"] = out1.strip().splitlines()[-3:]
s = subprocess.run(["/verif/tools/runsuite.sh", scratch], stdout=subprocess.PIPE, stderr=subprocess.STDOUT, text=True)
ran["suite"] = [l for l in s.stdout.splitlines() if "stable tests" in l]
confirmed = rc0 == 0 and rc1 != 0 and ran["patch_applies"] and any("failing: 0" in l for l in ran["suite"])
ran["confirmed"] = confirmed
checks = {}
if confirmed:
    for p in props:
        t = time.time()
        r = subprocess.run(["./check", p, "--tier", "quick"], cwd="/verif", env={**os.environ, "VERIF_REPO": scratch}, stdout=subprocess.PIPE, stderr=subprocess.STDOUT, text=True)
        lines = [l for l in r.stdout.splitlines() if l.startswith("VIOLATION") or l.startswith(p + " ")]
        replay = None
        for l in lines:
            if l.startswith("VIOLATION") and "replay=" in l:
                rp = l.split("replay=")[1].split()[0]
                try:
                    j = json.load(open(rp)); replay = {"stream": j.get("stream"), "detail": str(j.get("detail"))[:500], "no_failing_input_found": j.get("no_failing_input_found", False)}
                except Exception:
                    pass
        checks[p] = {"rc": r.returncode, "detected": r.returncode == 1 and any(l.startswith("VIOLATION property=%s" % p) for l in lines),
                     "lines": lines, "replay": replay, "wall_s": round(time.time() - t, 1)}
shutil.rmtree(scratch, ignore_errors=True)
meta.update({"seed_id": sid, "what_i_ran": ran, "checks": checks})
json.dump(meta, open(os.path.join(dst, "meta.json"), "w"), indent=1)
print(sid, "confirmed" if confirmed else "NOT CONFIRMED", {p: c["detected"] for p, c in checks.items()})
