#!/usr/bin/env python3
"""Run the registered quick checks against a behaviour-preserving refactoring (false-alarm test).
usage: tools/refactest.py <id> <worktree> <k> <property> [<property> ...]"""
import json, os, shutil, subprocess, sys, time
rid, wt, k, *props = sys.argv[1:]
dst = "/verif/seeded/refactor-%s" % rid
os.makedirs(dst, exist_ok=True)
shutil.copy(os.path.join(wt, "refactor_%s.diff" % k), os.path.join(dst, "patch.diff"))
meta = json.load(open(os.path.join(wt, "refactor_%s.json" % k)))
scratch = "/tmp/ccp_refactest_%s" % rid
shutil.rmtree(scratch, ignore_errors=True)
subprocess.run(["cp", "-r", "/repo", scratch], check=True)
subprocess.run(["git", "-C", scratch, "checkout", "-q", "--", "."], check=True)
a = subprocess.run(["git", "-C", scratch, "apply", os.path.join(dst, "patch.diff")], stdout=subprocess.PIPE, stderr=subprocess.STDOUT, text=True)
ran = {"patch_applies": a.returncode == 0, "apply_out": a.stdout[-300:]}
s = subprocess.run(["/verif/tools/runsuite.sh", scratch], stdout=subprocess.PIPE, stderr=subprocess.STDOUT, text=True)
ran["suite"] = [l for l in s.stdout.splitlines() if "stable tests" in l]
checks = {}
if ran["patch_applies"]:
    for p in props:
        t = time.time()
        r = subprocess.run(["./check", p, "--tier", "quick"], cwd="/verif", env={**os.environ, "VERIF_REPO": scratch}, stdout=subprocess.PIPE, stderr=subprocess.STDOUT, text=True)
        lines = [l for l in r.stdout.splitlines() if l.startswith("VIOLATION") or l.startswith(p + " ")]
        detail = None
        for l in lines:
            if l.startswith("VIOLATION") and "replay=" in l:
                try:
                    j = json.load(open(l.split("replay=")[1].split()[0])); detail = json.dumps(j)[:1500]
                except Exception:
                    pass
        checks[p] = {"rc": r.returncode, "alarm": r.returncode != 0, "lines": lines, "detail": detail, "wall_s": round(time.time() - t, 1)}
shutil.rmtree(scratch, ignore_errors=True)
meta.update({"kind": "behaviour-preserving refactoring (false-alarm test)", "id": rid, "what_i_ran": ran, "checks": checks})
json.dump(meta, open(os.path.join(dst, "meta.json"), "w"), indent=1)
print(rid, ran["suite"], {p: ("ALARM" if c["alarm"] else "quiet") for p, c in checks.items()})
