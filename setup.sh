#!/bin/bash
# MANIFEST.setup_cmd: regenerate the translated files from /repo and do a clean full .vo build.
set -e
cd "$(dirname "$0")"
export PYTHONPATH="/repo:$(pwd)/harness" PYTHONDONTWRITEBYTECODE=1 PYTHONWARNINGS=ignore PYTHONHASHSEED=0
ulimit -s unlimited 2>/dev/null || true
/venv/bin/python harness/translate.py || true
cd coq
find . -name '*.vo' -o -name '*.glob' -o -name '*.vok' -o -name '*.vos' -o -name '.*.aux' | xargs -r rm -f
rm -f Makefile Makefile.conf .Makefile.d
/venv/bin/python -c "import sys; sys.path.insert(0,'../harness'); import common; common.refresh_makefile()"
timeout 3000 make -j16 -k 2>&1 | grep -v "conda.cli.condarc" | tail -5 || true
echo "setup done"
