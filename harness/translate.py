"""Fail-closed Python-ast -> Gallina translator (tie "T" of DESIGN.md 2.1).

Regenerates /verif/coq/gen/GenIP.v (arithmetic / comparison methods of IPv4Obj and
IPv6Obj, statement by statement) and /verif/coq/gen/GenTables.v (constants and
tables read from the sources) from /repo's *current* working tree.  Anything outside
the supported subset raises Unsupported; the caller then treats the tie as broken.

Typing assumptions (trusted, see DESIGN.md 6): `self` and, in comparison methods,
`val` are non-empty address objects of the same family; `val` / `arg` of the
arithmetic methods and setters is a Python int.  Attribute map (trusted, tied by the
C11 correspondence): as_decimal -> addr, as_decimal_network -> netw W,
prefixlen/masklen/... -> plen.  Derived properties that are themselves translated
(numhosts, as_decimal_broadcast, as_decimal_network_maxint) are referenced by name and
sequenced with `bind`; a bind is hoisted to the front of the enclosing statement (so
the generated term may raise *earlier* than Python's lazy `and`; never later).
"""
import ast
import os
import sys

REPO = os.environ.get("VERIF_REPO", "/repo")
GEN = os.path.join(os.path.dirname(os.path.dirname(os.path.abspath(__file__))), "coq", "gen")


class Unsupported(Exception):
    pass


PRIM = {
    "as_decimal": "addr",
    "as_int": "addr",
    "as_decimal_network": "netw",
    "prefixlen": "plen",
    "prefixlength": "plen",
    "masklen": "plen",
    "masklength": "plen",
    "network_object.prefixlen": "plen",
}
DERIVED = ("as_decimal_broadcast", "as_decimal_network_maxint", "numhosts")
PLEN_SETTERS = ("prefixlen", "masklen", "prefixlength", "masklength")
EXN = {
    "RequirementFailure": "E_RequirementFailure", "ValueError": "E_ValueError",
    "NotImplementedError": "E_NotImplementedError", "AddressValueError": "E_AddressValueError",
    "AssertionError": "E_AssertionError", "AttributeError": "E_AttributeError",
    "TypeError": "E_TypeError",
}


class Tr:
    def __init__(self, fam, cls, W, consts, ret_self=False, int_args=(), cls_node=None, helpers=None, extra_defs=None):
        self.fam, self.cls, self.W, self.consts = fam, cls, W, consts
        self.objs = {"self"}
        self.locals = set(int_args)
        self.ret_self = ret_self
        self.pending = []
        self.nfresh = 0
        self.tuples = {}        # local name -> list of component terms (tuple-valued locals are kept symbolic)
        self.cidr_locals = {}   # local name -> arg name, for  x = f"{str(self.ip_object)}/{arg}"
        self.helpers = helpers if helpers is not None else {}   # shared: helper name -> (gallina name, kinds, ret kind)
        self.cls_node = cls_node
        self.extra_defs = extra_defs if extra_defs is not None else []

    # ---------------------------------------------------------------- expressions
    def attr_path(self, e):
        parts = []
        while isinstance(e, ast.Attribute):
            parts.append(e.attr)
            e = e.value
        if isinstance(e, ast.Name):
            return e.id, ".".join(reversed(parts))
        raise Unsupported("attribute base " + ast.dump(e))

    def attr(self, base, path):
        if base not in self.objs:
            raise Unsupported("attribute of non-object " + base)
        if path == "empty":
            return "false"          # typing assumption: non-empty objects
        if path in PRIM:
            fn = PRIM[path]
            return "(%s %s)" % (("netw %d" % self.W) if fn == "netw" else fn, base)
        if path in DERIVED:
            self.nfresh += 1
            v = "d%d_%s" % (self.nfresh, path)
            self.pending.append((v, "(gen_%s_%s %s)" % (self.fam, path, base)))
            return v
        raise Unsupported("attribute " + path)

    def expr(self, e):
        if isinstance(e, ast.Constant):
            if isinstance(e.value, bool):
                return "true" if e.value else "false"
            if isinstance(e.value, int):
                return "(%d)" % e.value
            raise Unsupported("constant %r" % (e.value,))
        if isinstance(e, ast.Name):
            if e.id in self.consts:
                return "(%d)" % self.consts[e.id]
            if e.id in self.locals:
                return e.id
            raise Unsupported("name " + e.id)
        if isinstance(e, ast.Attribute):
            base, path = self.attr_path(e)
            return self.attr(base, path)
        if isinstance(e, ast.BinOp):
            ops = {ast.Add: "+", ast.Sub: "-", ast.Mult: "*", ast.Pow: "^"}
            if type(e.op) not in ops:
                raise Unsupported("binop " + type(e.op).__name__)
            return "(%s %s %s)" % (self.expr(e.left), ops[type(e.op)], self.expr(e.right))
        if isinstance(e, ast.UnaryOp) and isinstance(e.op, ast.Not):
            return "(negb %s)" % self.expr(e.operand)
        if isinstance(e, ast.UnaryOp) and isinstance(e.op, ast.USub):
            return "(- %s)" % self.expr(e.operand)
        if isinstance(e, ast.BoolOp):
            op = "&&" if isinstance(e.op, ast.And) else "||"
            return "(" + (" %s " % op).join(self.expr(v) for v in e.values) + ")"
        if isinstance(e, ast.Compare):
            terms = [e.left] + e.comparators
            out = []
            for a, op, b in zip(terms, e.ops, terms[1:]):
                ta_, tb_ = self.tuple_of(a), self.tuple_of(b)
                if ta_ is not None or tb_ is not None:
                    if ta_ is None or tb_ is None or len(ta_) != len(tb_) or not ta_:
                        raise Unsupported("tuple comparison of different shapes")
                    out.append(self.lex(ta_, tb_, op))
                    continue
                if isinstance(op, (ast.Is, ast.IsNot)) and isinstance(b, ast.Constant) and isinstance(b.value, bool):
                    t = self.expr(a)
                    pos = (b.value is True) == isinstance(op, ast.Is)
                    out.append(t if pos else "(negb %s)" % t)
                    continue
                if isinstance(op, (ast.Is, ast.IsNot)) and isinstance(b, ast.Constant) and b.value is None:
                    # `getattr(obj, name, None) is None`: attribute presence (typing assumption: present)
                    self.expr(a)
                    out.append("false" if isinstance(op, ast.Is) else "true")
                    continue
                m = {ast.Lt: "<?", ast.LtE: "<=?", ast.Gt: ">?", ast.GtE: ">=?", ast.Eq: "=?"}
                if isinstance(op, ast.NotEq):
                    out.append("(negb (%s =? %s))" % (self.expr(a), self.expr(b)))
                    continue
                if type(op) not in m:
                    raise Unsupported("comparison " + type(op).__name__)
                ta, tb = self.expr(a), self.expr(b)
                if ta in ("true", "false") and tb in ("true", "false") and isinstance(op, ast.Eq):
                    out.append("(Bool.eqb %s %s)" % (ta, tb))
                else:
                    out.append("(%s %s %s)" % (ta, m[type(op)], tb))
            return out[0] if len(out) == 1 else "(" + " && ".join(out) + ")"
        if isinstance(e, ast.Call):
            f = e.func
            if isinstance(f, ast.Name) and f.id in ("int", "bool") and len(e.args) == 1 and not e.keywords:
                return self.expr(e.args[0])
            if isinstance(f, ast.Name) and f.id == "getattr" and len(e.args) >= 2 and isinstance(e.args[1], ast.Constant):
                return self.expr(ast.Attribute(value=e.args[0], attr=e.args[1].value))
            if isinstance(f, ast.Name) and f.id == "isinstance":
                return "true"       # typing assumption
            # obj.__eq__(other) and friends: a call of another translated comparison method (already emitted above)
            if (isinstance(f, ast.Attribute) and isinstance(f.value, ast.Name) and f.value.id in self.objs and f.attr in CMP_CALLS
                    and len(e.args) == 1 and not e.keywords and isinstance(e.args[0], ast.Name) and e.args[0].id in self.objs):
                self.nfresh += 1
                v = "c%d_%s" % (self.nfresh, CMP_CALLS[f.attr])
                self.pending.append((v, "(gen_%s_%s %s %s)" % (self.fam, CMP_CALLS[f.attr], f.value.id, e.args[0].id)))
                return v
            raise Unsupported("call " + ast.dump(f))
        raise Unsupported("expression " + type(e).__name__)

    def tuple_of(self, e):
        if isinstance(e, ast.Tuple):
            return [self.expr(x) for x in e.elts]
        if isinstance(e, ast.Name) and e.id in self.tuples:
            return self.tuples[e.id]
        return None

    def lex(self, xs, ys, op):
        """Python's lexicographic comparison of two equal-length tuples of integers."""
        if isinstance(op, ast.Eq):
            return "(" + " && ".join("(%s =? %s)" % (x, y) for x, y in zip(xs, ys)) + ")"
        if isinstance(op, ast.NotEq):
            return "(negb %s)" % self.lex(xs, ys, ast.Eq())
        strict = {ast.Lt: "<?", ast.Gt: ">?", ast.LtE: "<?", ast.GtE: ">?"}
        if type(op) not in strict:
            raise Unsupported("tuple comparison " + type(op).__name__)
        last = {ast.Lt: "<?", ast.Gt: ">?", ast.LtE: "<=?", ast.GtE: ">=?"}[type(op)]
        def rec(i):
            if i == len(xs) - 1:
                return "(%s %s %s)" % (xs[i], last, ys[i])
            return "((%s %s %s) || ((%s =? %s) && %s))" % (xs[i], strict[type(op)], ys[i], xs[i], ys[i], rec(i + 1))
        return rec(0)

    def helper_call(self, call):
        """self._helper(args) / Cls._helper(args): translate the helper once as its own definition."""
        f = call.func
        if not (isinstance(f, ast.Attribute) and isinstance(f.value, ast.Name) and f.value.id in ("self", self.cls)):
            return None
        if self.cls_node is None or call.keywords:
            return None
        name = f.attr
        node = None
        for n in self.cls_node.body:
            if isinstance(n, ast.FunctionDef) and n.name == name and not any(isinstance(d, ast.Attribute) and d.attr == "setter" for d in n.decorator_list):
                node = n
        if node is None:
            return None
        is_static = any(isinstance(d, ast.Name) and d.id == "staticmethod" for d in node.decorator_list)
        if any(isinstance(d, ast.Name) and d.id == "property" for d in node.decorator_list):
            return None
        params = [a.arg for a in node.args.args]
        if not is_static:
            if not params or params[0] != "self" or f.value.id != "self":
                return None
        if name not in self.helpers:
            kinds = []
            for prm in params:
                is_obj = prm == "self" or any(isinstance(x, ast.Attribute) and isinstance(x.value, ast.Name) and x.value.id == prm for x in ast.walk(node))
                kinds.append("obj" if is_obj else "int")
            rets = [x for x in ast.walk(node) if isinstance(x, ast.Return) and x.value is not None]
            sub = Tr(self.fam, self.cls, self.W, self.consts, int_args=[p_ for p_, k in zip(params, kinds) if k == "int"],
                     cls_node=self.cls_node, helpers=self.helpers, extra_defs=self.extra_defs)
            sub.objs = {p_ for p_, k in zip(params, kinds) if k == "obj"}
            gname = "gen_%s_h_%s" % (self.fam, name.strip("_"))
            self.helpers[name] = (gname, kinds, None)        # (guards against recursion)
            body = sub.block(node.body)
            rkind = "obj" if sub.returned_obj else "val"
            self.helpers[name] = (gname, kinds, rkind)
            sig = " ".join("(%s : %s)" % (p_, "ipo" if k == "obj" else "Z") for p_, k in zip(params, kinds))
            self.extra_defs.append((gname, "Definition %s %s :=\n  %s." % (gname, sig, body)))
        gname, kinds, rkind = self.helpers[name]
        if rkind is None:
            raise Unsupported("recursive helper " + name)
        args = ([ast.Name(id="self")] if not is_static else []) + list(call.args)
        if len(args) != len(kinds):
            raise Unsupported("helper arity " + name)
        terms = []
        for a, k in zip(args, kinds):
            if k == "obj":
                if not (isinstance(a, ast.Name) and a.id in self.objs):
                    raise Unsupported("helper object argument")
                terms.append(a.id)
            else:
                terms.append(self.expr(a))
        return "(%s %s)" % (gname, " ".join(terms)), rkind

    returned_obj = False

    def with_binds(self, mk):
        """Translate with `mk()` and wrap the result in the binds its expressions requested."""
        saved, self.pending = self.pending, []
        body = mk()
        binds, self.pending = self.pending, saved
        for v, t in reversed(binds):
            body = "(bind %s (fun %s => %s))" % (t, v, body)
        return body

    def with_binds_pair(self, mk):
        """Like with_binds for a maker returning (term, kind) or None; returns (term, kind, wrap) or None."""
        saved, self.pending = self.pending, []
        r = mk()
        binds, self.pending = self.pending, saved
        if r is None:
            if binds:
                raise Unsupported("derived property read in an untranslatable call")
            return None
        term, kind = r

        def wrap(body):
            for v, t in reversed(binds):
                body = "(bind %s (fun %s => %s))" % (t, v, body)
            return body
        return term, kind, wrap

    # ---------------------------------------------------------------- statements
    def is_guard_loop(self, s):
        # for obj in [self, val]: for attr_name in [...]: <presence checks>   (typing assumption)
        return (isinstance(s, ast.For) and isinstance(s.iter, ast.List)
                and all(isinstance(x, ast.Name) and x.id in self.objs for x in s.iter.elts))

    def ctor_int(self, call):
        """IPv4Obj(<int expr>) / IPv4Address(<int expr>)"""
        return (isinstance(call, ast.Call) and isinstance(call.func, ast.Name)
                and len(call.args) == 1 and not call.keywords)

    def is_plen_network_ctor(self, v):
        # IPv4Network(f"{str(self.ip_object)}/{arg}", strict=False)
        net = "IPv4Network" if self.fam == "v4" else "IPv6Network"
        if not (isinstance(v, ast.Call) and isinstance(v.func, ast.Name) and v.func.id == net and len(v.args) == 1):
            return None
        kw = {k.arg: k.value for k in v.keywords}
        if set(kw) != {"strict"} or not (isinstance(kw["strict"], ast.Constant) and kw["strict"].value is False):
            return None
        js = v.args[0]
        if isinstance(js, ast.Name) and js.id in self.cidr_locals:
            return self.cidr_locals[js.id]
        return self.cidr_arg(js)

    def cidr_arg(self, js):
        # f"{str(self.ip_object)}/{arg}"  -> "arg"
        if not (isinstance(js, ast.JoinedStr) and len(js.values) == 3):
            return None
        a, sep, b = js.values
        ok_a = (isinstance(a, ast.FormattedValue) and isinstance(a.value, ast.Call) and isinstance(a.value.func, ast.Name)
                and a.value.func.id == "str" and isinstance(a.value.args[0], ast.Attribute)
                and a.value.args[0].attr == "ip_object" and isinstance(a.value.args[0].value, ast.Name)
                and a.value.args[0].value.id == "self")
        ok_sep = isinstance(sep, ast.Constant) and sep.value == "/"
        ok_b = isinstance(b, ast.FormattedValue) and isinstance(b.value, ast.Name)
        if ok_a and ok_sep and ok_b:
            return b.value.id
        return None

    def block(self, stmts):
        if not stmts:
            if self.ret_self:
                return "(Ok self)"
            raise Unsupported("fall-through without return")
        s, rest = stmts[0], stmts[1:]
        if isinstance(s, ast.Expr) and isinstance(s.value, ast.Constant):
            return self.block(rest)                                   # docstring
        if self.is_guard_loop(s):
            return self.block(rest)
        if isinstance(s, ast.Return):
            if s.value is None:
                raise Unsupported("bare return")
            if isinstance(s.value, ast.Name) and s.value.id in self.objs:
                self.returned_obj = True
                return "(Ok %s)" % s.value.id
            if isinstance(s.value, ast.Call):
                hc = self.with_binds_pair(lambda: self.helper_call(s.value))
                if hc is not None:
                    term, rkind, wrap = hc
                    if rkind == "obj":
                        self.returned_obj = True
                    return wrap(term)
            return self.with_binds(lambda: "(Ok %s)" % self.expr(s.value))
        if isinstance(s, ast.Raise):
            exc = s.exc
            name = exc.func.id if isinstance(exc, ast.Call) and isinstance(exc.func, ast.Name) else (
                exc.id if isinstance(exc, ast.Name) else None)
            if name not in EXN:
                raise Unsupported("raise " + ast.dump(exc)[:60])
            return "(Raise %s)" % EXN[name]
        if isinstance(s, ast.Assign) and len(s.targets) == 1:
            t = s.targets[0]
            if isinstance(t, ast.Name):
                v = s.value
                if isinstance(v, ast.Tuple):
                    def mk():
                        self.tuples[t.id] = [self.expr(x) for x in v.elts]
                        return self.block(rest)
                    return self.with_binds(mk)
                if isinstance(v, ast.JoinedStr) and self.cidr_arg(v) is not None:
                    self.cidr_locals[t.id] = self.cidr_arg(v)
                    return self.block(rest)
                if isinstance(v, ast.Call):
                    hc = self.with_binds_pair(lambda: self.helper_call(v))
                    if hc is not None:
                        term, rkind, wrap = hc
                        if rkind == "obj":
                            self.objs.add(t.id)
                        else:
                            self.locals.add(t.id)
                        return wrap("(bind %s (fun %s => %s))" % (term, t.id, self.block(rest)))
                if self.ctor_int(v) and v.func.id == self.cls:
                    def mk():
                        arg = self.expr(v.args[0])
                        self.objs.add(t.id)
                        return "(let %s := mk_host %d %s in %s)" % (t.id, self.W, arg, self.block(rest))
                    return self.with_binds(mk)

                def mk():
                    val = self.expr(v)
                    self.locals.add(t.id)
                    return "(let %s := %s in %s)" % (t.id, val, self.block(rest))
                return self.with_binds(mk)
            if isinstance(t, ast.Attribute) and isinstance(t.value, ast.Name) and t.value.id in self.objs:
                o = t.value.id
                if t.attr in PLEN_SETTERS:
                    def mk():
                        return "(bind (gen_%s_set_%s %s %s) (fun %s => %s))" % (
                            self.fam, t.attr, o, self.expr(s.value), o, self.block(rest))
                    return self.with_binds(mk)
                if t.attr == "network_object":
                    argname = self.is_plen_network_ctor(s.value)
                    if argname is None or argname not in self.locals:
                        raise Unsupported("network_object assignment")
                    return "(bind (mk_net %d %s %s) (fun %s => %s))" % (self.W, o, argname, o, self.block(rest))
                if t.attr == "ip_object":
                    addrc = "IPv4Address" if self.fam == "v4" else "IPv6Address"
                    if not (self.ctor_int(s.value) and s.value.func.id == addrc):
                        raise Unsupported("ip_object assignment")

                    def mk():
                        return "(let %s := set_addr %s %s in %s)" % (o, o, self.expr(s.value.args[0]), self.block(rest))
                    return self.with_binds(mk)
            raise Unsupported("assignment " + ast.dump(t)[:60])
        if isinstance(s, ast.If):
            def mk_if():
                t = self.expr(s.test)
                # a test that is decided by the typing assumptions (attribute presence, isinstance): the dead branch
                # is not translated (it may not even be well typed, e.g. `return False` from an integer accessor)
                if t == "true":
                    return self.block(s.body + rest)
                if t == "false":
                    return self.block(s.orelse + rest)
                return "(if %s then %s else %s)" % (t, self.block(s.body + rest), self.block(s.orelse + rest))
            return self.with_binds(mk_if)
        if isinstance(s, ast.Try):
            # try: BODY except X: raise Y(...)   -- the handlers only re-label exceptions
            for h in s.handlers:
                for x in h.body:
                    if not isinstance(x, (ast.Raise, ast.Assign, ast.Expr, ast.Return)):
                        raise Unsupported("handler body")
            if s.orelse or s.finalbody:
                raise Unsupported("try/else/finally")
            return self.block(s.body + rest)
        raise Unsupported("statement " + type(s).__name__)


def find_method(cls_node, name, setter=False):
    for n in cls_node.body:
        if isinstance(n, ast.FunctionDef) and n.name == name:
            is_setter = any(isinstance(d, ast.Attribute) and d.attr == "setter" for d in n.decorator_list)
            if is_setter == setter:
                return n
    raise Unsupported("method %s.%s (setter=%s) not found" % (cls_node.name, name, setter))


def module_consts(tree):
    consts = {}
    for n in tree.body:
        if (isinstance(n, ast.Assign) and len(n.targets) == 1 and isinstance(n.targets[0], ast.Name)
                and isinstance(n.value, ast.Constant) and isinstance(n.value.value, int)
                and not isinstance(n.value.value, bool)):
            consts[n.targets[0].id] = n.value.value
    return consts


CMP_CALLS = {"__eq__": "eq", "__contains__": "contains"}   # callable from later methods (emitted earlier)

# (python name, gallina suffix, kind) ; kind: prop = derived property (self) -> Z,
# cmp = (self, val objects) -> bool, arith = (self, val int) -> ipo, setter = (self, arg int) -> ipo
METHODS = [
    ("numhosts", "numhosts", "prop"),
    ("__int__", "int", "prop"),
    ("__index__", "index", "prop"),
    ("as_decimal_broadcast", "as_decimal_broadcast", "prop"),
    ("as_decimal_network_maxint", "as_decimal_network_maxint", "prop"),
    ("prefixlen", "set_prefixlen", "setter"),
    ("masklen", "set_masklen", "setter"),
    ("prefixlength", "set_prefixlength", "setter"),
    ("masklength", "set_masklength", "setter"),
    ("network_offset", "set_network_offset", "setter"),
    ("__contains__", "contains", "cmp"),
    ("__eq__", "eq", "cmp"),
    ("__ne__", "ne", "cmp"),
    ("__lt__", "lt", "cmp"),
    ("__gt__", "gt", "cmp"),
    ("__add__", "add", "arith"),
    ("__sub__", "sub", "arith"),
]
OPTIONAL = {("v6", "prefixlength"), ("v4", "as_decimal_network_maxint")}


def translate_ip(src_path=None):
    src_path = src_path or os.path.join(REPO, "ciscoconfparse2", "ccp_util.py")
    tree = ast.parse(open(src_path).read())
    consts = module_consts(tree)
    classes = {n.name: n for n in tree.body if isinstance(n, ast.ClassDef)}
    out = ["(* GENERATED by harness/translate.py from %s -- do not edit *)" % src_path,
           "From Coq Require Import ZArith Bool.",
           "Require Import CCP.Lib.Res CCP.Model.IPRef.",
           "Open Scope Z_scope.", "",
           "Create HintDb genip.",
           "Definition mk_net (W : Z) (o : ipo) (p : Z) : result ipo :=",
           "  if (0 <=? p) && (p <=? W) then Ok (set_plen o p) else Raise E_ValueError.",
           "#[global] Hint Unfold mk_net : genip.", ""]
    names = []
    helpers = {"v4": {}, "v6": {}}
    extra_defs = []
    for fam, cls, W in (("v4", "IPv4Obj", 32), ("v6", "IPv6Obj", 128)):
        if cls not in classes:
            raise Unsupported("class %s not found" % cls)
        for pyname, suffix, kind in METHODS:
            try:
                fn = find_method(classes[cls], pyname, setter=(kind == "setter"))
            except Unsupported:
                if (fam, pyname) in OPTIONAL:
                    continue
                raise
            args = [a.arg for a in fn.args.args]
            gname = "gen_%s_%s" % (fam, suffix)
            kw = dict(cls_node=classes[cls], helpers=helpers[fam], extra_defs=extra_defs)
            if kind == "prop":
                if args != ["self"]:
                    raise Unsupported("%s.%s signature" % (cls, pyname))
                tr = Tr(fam, cls, W, consts, **kw)
                sig, rty = "(self : ipo)", "Z"
            elif kind == "cmp":
                if len(args) != 2 or args[0] != "self":
                    raise Unsupported("%s.%s signature" % (cls, pyname))
                tr = Tr(fam, cls, W, consts, **kw)
                tr.objs.add(args[1])
                sig, rty = "(self %s : ipo)" % args[1], "bool"
            elif kind == "arith":
                if len(args) != 2 or args[0] != "self":
                    raise Unsupported("%s.%s signature" % (cls, pyname))
                tr = Tr(fam, cls, W, consts, int_args=(args[1],), **kw)
                sig, rty = "(self : ipo) (%s : Z)" % args[1], "ipo"
            else:
                if len(args) != 2 or args[0] != "self":
                    raise Unsupported("%s.%s signature" % (cls, pyname))
                tr = Tr(fam, cls, W, consts, ret_self=True, int_args=(args[1],), **kw)
                sig, rty = "(self : ipo) (%s : Z)" % args[1], "ipo"
            try:
                body = tr.block(fn.body)
            except Unsupported as u:
                raise Unsupported("%s.%s: %s" % (cls, pyname, u))
            for hname, hdef in extra_defs:
                out.append(hdef)
                out.append("#[global] Hint Unfold %s : genip." % hname)
                out.append("")
                names.append(hname)
            del extra_defs[:]
            out.append("Definition %s %s : result %s :=\n  %s." % (gname, sig, rty, body))
            out.append("#[global] Hint Unfold %s : genip." % gname)
            out.append("")
            names.append(gname)
    for k in ("IPV4_MAXINT", "IPV6_MAXINT", "IPV4_MAX_PREFIXLEN", "IPV6_MAX_PREFIXLEN"):
        if k not in consts:
            raise Unsupported("constant %s not found" % k)
        out.append("Definition c_%s : Z := (%d)." % (k, consts[k]))
    return "\n".join(out) + "\n", names


def write_if_changed(path, text):
    old = open(path).read() if os.path.exists(path) else None
    if old != text:
        os.makedirs(os.path.dirname(path), exist_ok=True)
        with open(path, "w") as f:
            f.write(text)
        return True
    return False


def regenerate():
    """Returns dict(file -> status); raises Unsupported if a source is outside the subset."""
    status = {}
    ip_error = None
    try:
        text, names = translate_ip()
        status["GenIP.v"] = {"changed": write_if_changed(os.path.join(GEN, "GenIP.v"), text), "definitions": len(names)}
    except Unsupported as u:      # reported after the table generators have run (they serve other properties)
        ip_error = u
    # table generators: every harness/gen_*.py with generate() -> {"TabXxx.v": text}
    import glob
    import importlib
    here = os.path.dirname(os.path.abspath(__file__))
    if here not in sys.path:
        sys.path.insert(0, here)
    for path in sorted(glob.glob(os.path.join(here, "gen_*.py"))):
        modname = os.path.basename(path)[:-3]
        mod = importlib.import_module(modname)
        try:
            files = mod.generate()
        except Unsupported:
            raise
        except Exception as e:
            raise Unsupported("%s.generate() failed: %s: %s" % (modname, type(e).__name__, e))
        for fn, text in files.items():
            if not fn.startswith("Tab") or not fn.endswith(".v"):
                raise Unsupported("%s: generated file name %s must be Tab*.v" % (modname, fn))
            status[fn] = {"changed": write_if_changed(os.path.join(GEN, fn), text)}
    if ip_error is not None:
        raise ip_error
    return status


if __name__ == "__main__":
    try:
        print(regenerate())
    except Unsupported as u:
        print("UNSUPPORTED:", u)
        sys.exit(2)
