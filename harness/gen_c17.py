"""Tables for C17, read from /repo's source (python ast) on every run -> coq/gen/TabC17.v:
the type-7 `xlat` tuple inside CiscoPassword.decrypt_type_7, the wrap modulus used on it, the
`invalid_chars` string and the length bound of pwd_check, the two base-64 alphabets, and the KDF
parameters written in encrypt_type_8 / encrypt_type_9.

If anything cannot be read the generated file refers to an undefined identifier, so that only C17's
model build fails (and says why) instead of the whole harness."""
import ast
import os


def _strlit(s):
    return "[" + "; ".join(str(ord(c)) for c in s) + "]%N" if s else "[]"


def _cmt(x):
    """text that is safe inside a Coq comment (no string quote, no comment brackets)"""
    return repr(x).replace('"', "<dq>").replace("*)", "* )").replace("(*", "( *")


def _method(cls, name):
    for n in cls.body:
        if isinstance(n, ast.FunctionDef) and n.name == name:
            return n
    raise KeyError("method %s not found" % name)


def _assigned(fn, name):
    for n in ast.walk(fn):
        if isinstance(n, ast.Assign) and len(n.targets) == 1 and isinstance(n.targets[0], ast.Name) and n.targets[0].id == name:
            return n.value
    raise KeyError("assignment to %s not found" % name)


def read_tables(repo=None):
    repo = repo or os.environ.get("VERIF_REPO", "/repo")
    src = open(os.path.join(repo, "ciscoconfparse2", "ciscoconfparse2.py")).read()
    tree = ast.parse(src)
    cls = [n for n in tree.body if isinstance(n, ast.ClassDef) and n.name == "CiscoPassword"][0]
    out = {}
    # class attributes
    for n in cls.body:
        if isinstance(n, ast.Assign) and isinstance(n.targets[0], ast.Name) and n.targets[0].id in ("std_b64chars", "cisco_b64chars"):
            out[n.targets[0].id] = ast.literal_eval(n.value)
    # xlat tuple and the modulus of the wrap
    d7 = _method(cls, "decrypt_type_7")
    # the key table: the one long literal sequence of integers anywhere in the class (a local of decrypt_type_7 today; a class
    # constant after a harmless refactoring)
    tabs = [n for n in ast.walk(cls) if isinstance(n, (ast.Tuple, ast.List)) and len(n.elts) >= 20
            and all(isinstance(e, ast.Constant) and type(e.value) is int for e in n.elts)]
    if len(tabs) != 1:
        raise KeyError("expected exactly one integer table in CiscoPassword, found %d" % len(tabs))
    out["xlat"] = [int(x) for x in ast.literal_eval(tabs[0])]
    mods = [n.right.value for n in ast.walk(d7)
            if isinstance(n, ast.BinOp) and isinstance(n.op, ast.Mod) and isinstance(n.right, ast.Constant) and isinstance(n.right.value, int)]
    if len(mods) != 1:
        # the wrap of the key index is no longer written as `% <int>`: the tie is broken (reported through TabC17.v's
        # tab_unread marker); the reference value keeps the model runnable so that the correspondence can still look for a
        # concrete failing input
        out["unread"] = out.get("unread", []) + ["wrap: expected exactly one `%% <int>` in decrypt_type_7, found %r" % (mods,)]
        out["wrap"] = len(out["xlat"])
    else:
        out["wrap"] = mods[0]
    # pwd_check
    pc = _method(cls, "pwd_check")
    out["invalid_chars"] = ast.literal_eval(_assigned(pc, "invalid_chars"))
    lens = [n.comparators[0].value for n in ast.walk(pc)
            if isinstance(n, ast.Compare) and len(n.ops) == 1 and isinstance(n.ops[0], ast.Gt)
            and isinstance(n.comparators[0], ast.Constant) and isinstance(n.comparators[0].value, int)]
    if len(lens) != 1:
        raise KeyError("expected exactly one `len(pwd) > <int>` in pwd_check, found %r" % (lens,))
    out["max_len"] = lens[0]
    # KDF parameters as written in the calls
    e8 = _method(cls, "encrypt_type_8")
    call8 = [n for n in ast.walk(e8) if isinstance(n, ast.Call) and isinstance(n.func, ast.Attribute) and n.func.attr == "pbkdf2_hmac"][0]
    out["t8_digest"] = ast.literal_eval(call8.args[0])
    out["t8_rounds"] = ast.literal_eval(call8.args[3])
    out["t8_dklen"] = ast.literal_eval(call8.args[4])
    e9 = _method(cls, "encrypt_type_9")
    call9 = [n for n in ast.walk(e9) if isinstance(n, ast.Call) and isinstance(n.func, ast.Attribute) and n.func.attr == "hash"
             and len(n.args) == 6][0]
    out["t9_params"] = [ast.literal_eval(a) for a in call9.args[2:6]]
    for nm, fn in (("t8_saltlen", e8), ("t9_saltlen", e9)):
        rng = [n for n in ast.walk(fn) if isinstance(n, ast.Call) and isinstance(n.func, ast.Name) and n.func.id == "range" and len(n.args) == 1]
        out[nm] = ast.literal_eval(rng[0].args[0])
    return out


def generate():
    try:
        t = read_tables()
        body = [
            "(* GENERATED on every run by harness/gen_c17.py from ciscoconfparse2/ciscoconfparse2.py (class CiscoPassword) -- do not edit *)",
            "From Coq Require Import NArith ZArith List.",
            "Import ListNotations.",
            "Definition tab_xlat : list N := [%s]%%N." % "; ".join(str(x) for x in t["xlat"]),
            "Definition tab_wrap : Z := %d%%Z.   (* s %% %d *)" % (t["wrap"], t["wrap"]),
            "Definition tab_invalid_chars : list N := %s.   (* %s *)" % (_strlit(t["invalid_chars"]), _cmt(t["invalid_chars"])),
            "Definition tab_max_len : nat := %d%%nat." % t["max_len"],
            "Definition tab_std_b64 : list N := %s." % _strlit(t["std_b64chars"]),
            "Definition tab_cisco_b64 : list N := %s." % _strlit(t["cisco_b64chars"]),
            "Definition tab_t8_rounds : N := %d%%N.   (* pbkdf2_hmac(%s, ..., %d, %d) *)" % (t["t8_rounds"], _cmt(t["t8_digest"]), t["t8_rounds"], t["t8_dklen"]),
            "Definition tab_t8_dklen : nat := %d%%nat." % t["t8_dklen"],
            "Definition tab_t8_saltlen : nat := %d%%nat." % t["t8_saltlen"],
            "Definition tab_t9_params : list N := [%s]%%N.   (* scrypt N, r, p, dklen *)" % "; ".join(str(x) for x in t["t9_params"]),
            "Definition tab_t9_saltlen : nat := %d%%nat." % t["t9_saltlen"],
            "(* constants that could not be read from the source (the reference value was used): the property file checks that this list is empty *)",
            "Definition tab_unread : list nat := [%s]%%nat.   (* %s *)" % ("; ".join("1" for _ in t.get("unread", [])), _cmt(" | ".join(t.get("unread", [])) or "none")),
        ]
        return {"TabC17.v": "\n".join(body) + "\n"}
    except Exception as e:  # fail closed, but only for C17
        return {"TabC17.v": "(* harness/gen_c17.py could not read the CiscoPassword tables: %s: %s *)\n"
                            "Definition tab_xlat := ciscopassword_tables_could_not_be_read.\n" % (type(e).__name__, _cmt(str(e)))}


if __name__ == "__main__":
    print(generate()["TabC17.v"])
