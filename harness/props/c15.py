"""C15 — interface names round-trip and sort numerically; interface ranges expand exactly."""
import itertools

from runner import Stream
import common

ID = "C15"
LEVEL = "proof"
PROPS = "Props/C15.vo"
MODEL_TARGETS = ["Corr/C15.vo"]
OBLIGATION_FILES = ["Props/C15.v"]
_U = "ciscoconfparse2/ccp_util.py"
ANCHORS = [(_U, "CiscoIOSInterface.parse_single_interface"), (_U, "CiscoIOSInterface.parse_intf_short"),
           (_U, "CiscoIOSInterface.parse_intf_long"), (_U, "CiscoIOSInterface.update_internal_state"),
           (_U, "CiscoIOSInterface.render_as_string"), (_U, "CiscoIOSInterface.number"),
           (_U, "CiscoIOSInterface.as_dict"), (_U, "CiscoIOSInterface.from_dict"),
           (_U, "CiscoIOSInterface.update_sort_list"), (_U, "CiscoIOSInterface.__eq__"),
           (_U, "CiscoIOSInterface.__lt__"), (_U, "CiscoIOSInterface.__gt__"), (_U, "CiscoIOSInterface.__hash__"),
           (_U, "CiscoRange.__init__"), (_U, "CiscoRange.parse_cisco_interfaces"), (_U, "CiscoRange.attribute_sort"),
           (_U, "CiscoRange.as_list"), (_U, "CiscoRange.as_set"), (_U, "CiscoRange.__len__"), (_U, "CiscoRange.__iter__")]
RULE = ("six streams. parse: arbitrary strings (grammar names, their one-edit neighbourhood over '/.:-^_, aZ09\\t', leading zeros, every string "
        "over an 8-symbol alphabet up to length 4 (length 5, plus a 10-symbol alphabet up to length 4, in the thorough tier)) -> as_dict, str, the re-parse of str, ==, hash against the model; "
        "name_spec: grammar names (prefix x optional blank x 1..3 numbers x .sub x :chan x class word) -> the generator's components and the "
        "canonical text, re-parse equal; order: pairs (<, >, ==, equal objects hash equally); sorted: same-shape lists; range: arbitrary range texts x random "
        "sequences of read accessors (len, iteration, as_list, as_set) against the model; range_spec: grammar ranges -> the base interface "
        "with the iterated component replaced by each listed value, once, ascending. non-trivial = a successful parse (distinct by shape and "
        "whether the text was already canonical), a pair whose numeric and lexical orders differ, an expansion with >= 2 parts. Every range case is also run with reverse=True and must read the same (as_list turned round).")
EXHAUSTIVE = {"quick": True, "thorough": True}
TRUSTED = [
    "Coq 8.16.1 kernel incl. vm_compute",
    "hand-written model coq/Model/Intf.v of CiscoIOSInterface / CiscoRange.parse_cisco_interfaces: the regular expressions of the source are "
    "expanded by hand into scanners (\\d = ASCII digits, \\s = str.isspace); tied to the source by the correspondence streams and AST fingerprints only",
    "correspondence driver harness/props/c15.py and the Gallina literal emitter",
    "Python's set()/sorted() are modelled as first-occurrence de-duplication and a stable insertion sort that raises when two members are not comparable",
]
ASSUMPTIONS = ["interface names and range texts are ASCII (non-ASCII decimal digits, which Python's \\d and int() accept, are outside the model)",
               "range end ordinals are bounded (<= 400) in generated cases",
               "known findings F27 (class word holding a digit), F20/F28 (sub-interface/channel ranges with several parts, '-' in prefix or class word) are excluded by the guards of the theorems"]

PREFIXES = ["Ethernet", "Eth", "Gi", "GigabitEthernet", "Te", "TenGigabitEthernet", "Fa", "Port-channel", "Po", "Serial", "Se",
            "Vlan", "Loopback", "Lo", "Tunnel", "ATM", "mgmt", "Hu", "FortyGigE", "Dialer"]
NUMS = [0, 1, 2, 3, 7, 9, 10, 11, 19, 20, 48, 99, 100, 101, 255, 999, 1000, 1001, 4094, 9998, 9999]
CLASSES = ["multipoint", "point-to-point", "l2transport", "foo", "x"]
READERS = ["R_len", "R_iter", "R_as_list", "R_as_set_str", "R_as_set"]


def _num(rng):
    return rng.choice(NUMS) if rng.random() < 0.6 else rng.randint(0, 9999)


def _ast(rng, allow_digit_class=True):
    n = rng.choice((1, 1, 2, 2, 2, 3, 3))
    cls = None
    if rng.random() < 0.3:
        cls = rng.choice(CLASSES if allow_digit_class else [c for c in CLASSES if not any(ch.isdigit() for ch in c)])
    return {"prefix": rng.choice(PREFIXES) if rng.random() < 0.95 else "",
            "blank": rng.choice(["", "", " ", " ", "  ", "\t"]),
            "nums": [_num(rng) for _ in range(n)],
            "sub": _num(rng) if rng.random() < 0.35 else None,
            "chan": _num(rng) if rng.random() < 0.25 else None,
            "cls": cls}


def _text(a, blank=True):
    s = a["prefix"] + (a["blank"] if blank else "") + "/".join(str(n) for n in a["nums"])
    if a["sub"] is not None:
        s += ".%d" % a["sub"]
    if a["chan"] is not None:
        s += ":%d" % a["chan"]
    if a["cls"] is not None:
        s += " " + a["cls"]
    return s


def _dict_of_ast(a):
    n = a["nums"]
    return {"prefix": a["prefix"], "digit_separator": "/" if len(n) > 1 else None, "slot": n[0] if len(n) > 1 else None,
            "card": n[1] if len(n) == 3 else None, "port": n[-1], "subinterface": a["sub"], "channel": a["chan"],
            "interface_class": a["cls"]}


# ------------------------------------------------------------------ literals
def S(s):
    return common.strlit(s)


def oN(x):
    return "None" if x is None else "(Some %s)" % common.zlit(x)


def oS(x):
    return "None" if x is None else "(Some %s)" % S(x)


def dictlit(d):
    return "(%s, %s, %s, %s, %s, %s, %s, %s)" % (S(d["prefix"]), oS(d["digit_separator"]), oN(d["slot"]), oN(d["card"]), oN(d["port"]),
                                                 oN(d["subinterface"]), oN(d["channel"]), oS(d["interface_class"]))


def obs1lit(o):
    return "None" if o is None else "(Some (%s, %s))" % (dictlit(o[0]), S(o[1]))


def _obs(s):
    """Some (as_dict, str) of CiscoIOSInterface(s) or None"""
    from ciscoconfparse2.ccp_util import CiscoIOSInterface
    try:
        o = CiscoIOSInterface(s)
        d = o.as_dict()
        for k in ("slot", "card", "port", "subinterface", "channel"):
            if d[k] is not None:
                d[k] = int(d[k])
        return [d, str(o)], o
    except BaseException:
        return None, None


def _small(d):
    """__hash__ is 3**port + ...: only evaluated for moderate numbers"""
    return all(d[k] is None or d[k] <= 20000 for k in ("slot", "card", "port", "subinterface", "channel"))


PRE = ("From Coq Require Import NArith List Bool. Import ListNotations. "
       "Require Import CCP.Lib.PyStr CCP.Model.Intf CCP.Corr.C15. Open Scope N_scope.")


# ------------------------------------------------------------------ stream parse
EDIT = "/.:-^_, aZ09\t"
ALPHA = ["E", "t", "1", "0", "/", ".", ":", " ", "-", "^"]
ALPHA_Q = ["E", "1", "0", "/", ".", ":", " ", "-"]


def gen_parse(rng, tier, escalate):
    big = tier == "thorough" or escalate
    out = []
    seen = set()

    def add(s, kind):
        if s not in seen and len(s) < 60:
            seen.add(s)
            out.append({"s": s, "kind": kind})
    for _ in range(1500 * (4 if big else 1)):
        a = _ast(rng)
        add(_text(a), "grammar")
    bases = ["Ethernet1", "Eth1/2", "Gi1/0/1", "Serial4/1/2.9:5 point-to-point", "Port-channel 1.100", "Vlan10", "Eth 1/2 multipoint",
             "Ethernet 1.0 l2transport", "Serial1/0:1", "ATM2/1/8.5 point-to-point", "1/2", "7"]
    for b in bases:
        add(b, "base")
        for i in range(len(b) + 1):
            for ch in EDIT:
                add(b[:i] + ch + b[i:], "edit")
                if i < len(b):
                    add(b[:i] + ch + b[i + 1:], "edit")
            if i < len(b):
                add(b[:i] + b[i + 1:], "edit")
    for _ in range(600 * (4 if big else 1)):
        a = _ast(rng)
        t = list(_text(a))
        for _ in range(rng.randint(1, 3)):
            i = rng.randint(0, len(t))
            r = rng.random()
            if r < 0.4:
                t.insert(i, rng.choice(EDIT))
            elif r < 0.7 and t:
                t.pop(min(i, len(t) - 1))
            elif t:
                t[min(i, len(t) - 1)] = rng.choice(EDIT)
        add("".join(t), "mutant")
    for s in ["Eth0012", "Eth01/002/0003.04:05", " Eth1/2 ", "Eth1/2\n", "\tEth1", "Eth1/2  multipoint", "Eth1/2\tmultipoint", "Eth1/2 multi point",
              "Eth1/99999999999999999999", "Eth18446744073709551616", "Eth1/2.18446744073709551615", "Eth", "", " ", "-", "Eth-1", "Eth - 1", ".5", ":5", "^5",
              "Eth1//2", "Eth1/2/3/4", "Eth1/2/", "Eth1/", "Eth/1", "Eth1:2/3", "Eth1.2/3", "Eth1/2:3.4", "Eth1.2.3", "Eth1:2:3", "Eth1 2", "Eth1/2 3",
              "Eth1/2 x9", "Eth1 9x", "Eth1/2 -", "Eth1/2 a-b", "Eth1,2", "Eth1/2  foo", "Eth 1/2", "Eth1/2 x", "Eth1_2", "Eth1/2;", "Eth1|2", "Eth1\\2", "Eth1/2 é"]:
        add(s, "hand")
    # exhaustive: every string over the 8-symbol alphabet up to length 4 (quick) / 5 (thorough);
    # thorough adds every string over the 10-symbol alphabet up to length 4
    for k in range(1, (5 if big else 4) + 1):
        for t in itertools.product(ALPHA_Q, repeat=k):
            add("".join(t), "exhaustive")
    if big:
        for k in range(1, 5):
            for t in itertools.product(ALPHA, repeat=k):
                add("".join(t), "exhaustive")
    for _ in range(1500 * (4 if big else 1)):
        add("".join(rng.choice(ALPHA) for _ in range(rng.randint(4, 7))), "random-alphabet")
    return out


def run_parse(case):
    o1, obj = _obs(case["s"])
    if o1 is None:
        return [None, None]
    o2, obj2 = _obs(o1[1])
    e = bool(obj2 is not None and obj2 == obj)
    try:
        h = bool(obj2 is not None and obj2.__hash__() == obj.__hash__()) if _small(o1[0]) else None
    except BaseException:
        h = None
    return [o1, [o2, e, h]]


def lit_parse(c, o):
    o1, sec = o
    if o1 is None:
        return "(%s, None, None)" % S(c["s"])
    o2, e, h = sec
    return "(%s, %s, Some (%s, %s, %s))" % (S(c["s"]), obs1lit(o1), obs1lit(o2), common.blit(e), common.optlit(h, common.blit))


def nt_parse(c, o):
    if o[0] is None:
        return None
    d = o[0][0]
    return (d["digit_separator"] is not None, d["card"] is not None, d["subinterface"] is not None, d["channel"] is not None,
            d["interface_class"] is not None, o[0][1] == c["s"], d["prefix"] == "")


# ------------------------------------------------------------------ stream name_spec
def gen_spec(rng, tier, escalate):
    big = tier == "thorough" or escalate
    out = []
    for _ in range(1500 * (4 if big else 1)):
        out.append(_ast(rng))
    # every shape at the numeric boundaries
    for p in ("Ethernet", "Port-channel", "Gi"):
        for n in (1, 2, 3):
            for sub in (None, 0, 9999):
                for chan in (None, 0, 9999):
                    for cls in (None, "multipoint", "point-to-point"):
                        for blank in ("", " "):
                            for v in (0, 9, 10, 9999):
                                out.append({"prefix": p, "blank": blank, "nums": [v] * n, "sub": sub, "chan": chan, "cls": cls})
    return out


def run_spec(case):
    o1, obj = _obs(_text(case))
    o2, obj2 = _obs(_text(case, blank=False))
    return [o1, o2, bool(obj is not None and obj2 is not None and obj == obj2)]


def lit_spec(c, o):
    return "(%s, %s, %s, %s, %s)" % (dictlit(_dict_of_ast(c)), S(_text(c, blank=False)), obs1lit(o[0]), obs1lit(o[1]), common.blit(o[2]))


def nt_spec(c, o):
    return (len(c["nums"]), c["sub"] is not None, c["chan"] is not None, c["cls"], c["blank"] != "", c["prefix"])


def _has_digit(s):
    return s is not None and any(ch.isdigit() for ch in s)


def known_spec(c, o, kf):
    """F27: the class word holds a digit (l2transport) and the only deviation is that the class word is dropped."""
    if not _has_digit(c["cls"]):
        return None
    exp = _dict_of_ast(c)
    exp["interface_class"] = None
    canon = _text(dict(c, cls=None), blank=False)
    if o[0] == [exp, canon] and o[1] == [exp, canon] and o[2] is True:
        return "F27" if any(k["id"] == "F27" for k in kf) else None
    return None


# ------------------------------------------------------------------ stream order / sorted
def _shape_pair(rng):
    a = _ast(rng, allow_digit_class=False)
    b = dict(a)
    b["nums"] = list(a["nums"])
    r = rng.random()
    fields = [("nums", i) for i in range(len(a["nums"]))] + [(k, None) for k in ("sub", "chan") if a[k] is not None]
    f = rng.choice(fields)
    # numerically close values whose decimal strings order the other way
    x, y = rng.choice([(2, 10), (9, 10), (19, 100), (99, 100), (1, 1), (0, 1), (999, 1000), (5, 5), (2, 11), (100, 20)])
    if rng.random() < 0.5:
        x, y = y, x
    if f[0] == "nums":
        a["nums"][f[1]], b["nums"][f[1]] = x, y
    else:
        a[f[0]], b[f[0]] = x, y
    if r < 0.15:
        b["prefix"] = rng.choice(PREFIXES)
    if r > 0.85 and a["cls"] is not None:
        b["cls"] = rng.choice(["multipoint", "point-to-point", "foo", "fo", "fooo", "Foo"])
    a["blank"] = b["blank"] = ""
    return a, b


def gen_order(rng, tier, escalate):
    big = tier == "thorough" or escalate
    out = []
    for _ in range(1500 * (4 if big else 1)):
        a, b = _shape_pair(rng)
        out.append({"a": _text(a), "b": _text(b), "same_shape": True})
    for _ in range(400 * (4 if big else 1)):
        out.append({"a": _text(_ast(rng, False)), "b": _text(_ast(rng, False)), "same_shape": False})
    out.append({"a": "Eth1/2", "b": "Eth1/10", "same_shape": True})
    out.append({"a": "Eth1/2", "b": "Gi1/2", "same_shape": True})
    return out


def _tri(f):
    try:
        return 1 if f() else 0
    except TypeError:
        return 2


def run_order(case):
    _, a = _obs(case["a"])
    _, b = _obs(case["b"])
    if a is None or b is None:
        return None
    da, db = a.as_dict(), b.as_dict()
    h = bool(hash(a) == hash(b)) if _small(da) and _small(db) else None
    return [_tri(lambda: a < b), _tri(lambda: a > b), bool(a == b), h]


def lit_order(c, o):
    if o is None:
        return "(%s, %s, None)" % (S(c["a"]), S(c["b"]))
    h = common.optlit(o[3], common.blit)
    return "(%s, %s, Some (%d, %d, %s, %s))" % (S(c["a"]), S(c["b"]), o[0], o[1], common.blit(o[2]), h)


def nt_order(c, o):
    if o is None or not c["same_shape"] or o[0] == 2:
        return None
    lex = c["a"] < c["b"]
    if (o[0] == 1) != lex:
        return ("numeric-vs-lexical", o[0], o[1], o[2])
    return None


def gen_sorted(rng, tier, escalate):
    big = tier == "thorough" or escalate
    out = []
    for _ in range(500 * (4 if big else 1)):
        a = _ast(rng, False)
        a["blank"] = ""
        names = []
        for _ in range(rng.randint(2, 8)):
            b = dict(a)
            b["nums"] = [rng.choice([1, 2, 9, 10, 11, 99, 100]) if rng.random() < 0.7 else _num(rng) for _ in a["nums"]]
            if a["sub"] is not None:
                b["sub"] = rng.choice([0, 2, 10, 100])
            if a["chan"] is not None:
                b["chan"] = rng.choice([0, 2, 10, 100])
            if rng.random() < 0.2:
                b["prefix"] = rng.choice(PREFIXES)
            names.append(_text(b))
        out.append({"names": names})
    for _ in range(60):
        out.append({"names": [_text(dict(_ast(rng, False), blank="")), _text(dict(_ast(rng, False), blank=""))]})
    out.append({"names": ["Eth1/10", "Eth1/2", "Eth1/1", "Eth1/100", "Eth1/20"]})
    return out


def run_sorted(case):
    objs = []
    for n in case["names"]:
        _, o = _obs(n)
        if o is None:
            return None
        objs.append(o)
    try:
        return [str(x) for x in sorted(objs)]
    except TypeError:
        return None


def lit_sorted(c, o):
    return "(%s, %s)" % (common.listlit([S(n) for n in c["names"]]), "None" if o is None else "(Some %s)" % common.listlit([S(x) for x in o]))


def nt_sorted(c, o):
    if o is None or o == sorted(o):
        return None
    return (len(o),)


# ------------------------------------------------------------------ stream range / range_spec
def _range_ast(rng):
    base = _ast(rng, allow_digit_class=True)
    base["blank"] = rng.choice(["", "", "", " "])
    k = 0
    r = rng.random()
    if r < 0.15:
        base["sub"], base["chan"], k = rng.choice([0, 5, 19, 100]), None, 1
    elif r < 0.3:
        base["chan"], k = rng.choice([0, 1, 14, 23]), 2
    else:
        base["sub"] = base["chan"] = None
    if base["cls"] is not None and rng.random() < 0.5:
        base["cls"] = "multipoint"
    if rng.random() < 0.75 and "-" in base["prefix"]:
        base["prefix"] = rng.choice(["Eth", "Gi", "Serial", "Vlan", "Loopback"])
    first = base["nums"][-1] if k == 0 else (base["sub"] if k == 1 else base["chan"])
    first = min(first, 9800)
    if k == 0:
        base["nums"][-1] = first
    items = []
    nparts = 1 if (k > 0 and rng.random() < 0.6) else rng.randint(1, 5)
    for i in range(nparts):
        a = first if i == 0 else rng.choice([first, first + 1, first + 2, max(0, first - 1), rng.randint(0, 60), rng.randint(0, 9999)])
        if rng.random() < 0.5:
            items.append([a, a + rng.choice([0, 1, 2, 3, 8, 30])])
        else:
            items.append([a, None])
    return {"base": base, "k": k, "items": items}


def _range_text(r):
    b = dict(r["base"])
    cls = b["cls"]
    b["cls"] = None
    s = _text(b)
    parts = []
    for i, (a, e) in enumerate(r["items"]):
        p = s if i == 0 else str(a)
        if e is not None:
            p += "-%d" % e
        parts.append(p)
    return ",".join(parts) + (" " + cls if cls is not None else "")


def _approx_begin(left):
    """a guess of the ordinal the expansion starts from (only used to keep generated expansions small)"""
    import re
    m = re.search(r":(\d+)", left) or re.search(r"\.(\d+)", left)
    if m:
        return int(m.group(1))
    m = re.search(r"(\d+)(?:/(\d+))?(?:/(\d+))?", left)
    if not m:
        return 0
    return int([g for g in m.groups() if g is not None][-1])


def _too_big(text):
    """keep generated expansions small: __hash__ is 3**port (slow for long digit runs), every member is rendered,
    and the model's de-duplication is quadratic"""
    import re
    if len(text) > 80 or re.search(r"\d{6}", text):
        return True
    for part in text.split(","):
        pc = part.split("-")
        if len(pc) == 2:
            d = "".join(ch for ch in pc[1] if ch.isdigit())
            if d:
                runs = [int(x) for x in re.findall(r"\d+", pc[0])] or [0]
                e = int(d)
                if e > 12000 or e - _approx_begin(pc[0]) > 400 or (e - min(runs) > 400 and e - _approx_begin(pc[0]) < 0):
                    return True
    return False


RALPHA = ["Eth", "1", "3", "/", ",", "-", ".", ":", " ", "m"]
RALPHA_Q = ["Eth", "1", "3", "/", ",", "-", ".", ":"]


def _readers(rng):
    return [rng.choice(READERS) for _ in range(rng.randint(0, 4))] + ["R_iter", "R_len"]


def gen_range(rng, tier, escalate):
    big = tier == "thorough" or escalate
    out = []
    seen = set()

    def add(t, kind):
        if t in seen or _too_big(t):
            return
        seen.add(t)
        out.append({"text": t, "readers": _readers(rng), "rt": rng.choice(["str", "str", "None"]), "kind": kind})
    for _ in range(1200 * (4 if big else 1)):
        add(_range_text(_range_ast(rng)), "grammar")
    for t in ["Eth1/1-3,5", "Eth1/1-3,5,9-10", "Eth1/3,1", "Eth1/1-3,2-4", "Serial1/0:1-3,7", "Serial1/0:1-3", "Loopback10.19,50-53", "Loopback10.19-21",
              "Port-channel1/0:14-15", "Port-channel1-3", "Port-channel1,3", "Eth1/1-3 multipoint", "Eth1/1-3,5 multipoint", "Eth1/1,Eth1/2", "Eth1/1-Eth1/4",
              "Eth1/1,Eth2/5", "Eth1/5-3", "Eth1/1,,2", "Eth1/1,", "Eth1", "Eth1-3", "1-3", "Gi1/0/1-4,7", "Gi 1/0/1-4", "Eth1/1 - 3", "Eth1/1 -3, 5", "Eth1/1-2-3",
              "Eth1/1.5-7", "Eth1/1.5-7,9", "Eth1/1-3,5.7", ",Eth1/1", "Eth1/1-x", "Eth1/1-3,x", "Serial1/0-5 point-to-point", "Serial1/0 point-to-point",
              "Eth1/1-3 l2transport", "Eth1/1-3 foo bar", "Eth1/1 foo,3", "Eth1/1 foo-3", "Eth1/1-3,Eth1/1.5", "Eth1/1.5,Eth1/1.7", "Eth1/1.5,.7", "Eth1/1.5,.7-.9",
              "Serial1/0:1,:3", "Eth1/1-3,3-1", "Eth1/3-1,5", "", " ", ",", "-", "Eth1/1-3\n", " Eth1/1-3", "Eth1/1-3 ,5", "Eth1/1-3, 5 - 7", "Vlan1-300", "Eth1/1,1,1",
              "Eth1/2,1-3,2", "Eth1/1 multipoint,3", "Eth1/1-3 9", "Eth1/1-3 x9"]:
        add(t, "hand")
    for _ in range(500 * (4 if big else 1)):
        t = list(_range_text(_range_ast(rng)))
        for _ in range(rng.randint(1, 2)):
            i = rng.randint(0, len(t))
            r = rng.random()
            if r < 0.4:
                t.insert(i, rng.choice(",-/.: 1a"))
            elif r < 0.7 and t:
                t.pop(min(i, len(t) - 1))
            elif t:
                t[min(i, len(t) - 1)] = rng.choice(",-/.: 1a")
        add("".join(t), "mutant")
    for k in range(1, (5 if big else 4) + 1):
        for t in itertools.product(RALPHA_Q, repeat=k):
            add("".join(t), "exhaustive")
    if big:
        for k in range(1, 5):
            for t in itertools.product(RALPHA, repeat=k):
                add("".join(t), "exhaustive")
    for _ in range(1500 * (4 if big else 1)):
        add("".join(rng.choice(RALPHA) for _ in range(rng.randint(4, 8))), "random-alphabet")
    return out


def _read(r, name):
    try:
        if name == "R_len":
            return ["len", len(r)]
        if name == "R_iter":
            return ["list", [str(x) for x in r]]
        if name == "R_as_list":
            v = r.as_list()
            if isinstance(v, set):
                return ["set", sorted(str(x) for x in v)]
            return ["list", [str(x) for x in v]]
        if name == "R_as_set_str":
            return ["set", sorted(r.as_set(result_type=str))]
        if name == "R_as_set":
            return ["set", sorted(set(str(x) for x in r.as_set()))]
    except BaseException:
        return ["raise"]
    return ["raise"]


def run_range(case):
    from ciscoconfparse2.ccp_util import CiscoRange
    try:
        r = CiscoRange(case["text"], result_type=(str if case["rt"] == "str" else None))
    except BaseException:
        return None
    out = [_read(r, n) for n in case["readers"]]
    # the same text with reverse=True: only as_list() is turned round (descending); the stored members and every other
    # reader -- before and after reading -- are as without the option
    try:
        rr = CiscoRange(case["text"], result_type=(str if case["rt"] == "str" else None), reverse=True)
    except BaseException:
        return ["raise"] * len(out) if out else out
    for i, n in enumerate(case["readers"]):
        v = _read(rr, n)
        if n == "R_as_list" and v[0] == "list":
            v = ["list", v[1][::-1]]
        if v != out[i]:
            out[i] = ["list", ["<with reverse=True this reader answers differently>"]]       # never what the model says
    return out


def routlit(o):
    if o[0] == "len":
        return "(O_len %d)" % o[1]
    if o[0] == "list":
        return "(O_list %s)" % common.listlit([S(x) for x in o[1]])
    if o[0] == "set":
        return "(O_set %s)" % common.listlit([S(x) for x in o[1]])
    return "O_raise"


def lit_range(c, o):
    return "(%s, %s, %s)" % (S(c["text"]), common.listlit(c["readers"]),
                             "None" if o is None else "(Some %s)" % common.listlit([routlit(x) for x in o]))


def nt_range(c, o):
    if o is None or "," not in c["text"]:
        return None
    n = o[-1][1] if o[-1][0] == "len" else -1
    return (c["text"].count(","), "-" in c["text"], "." in c["text"], ":" in c["text"], min(n, 12), tuple(c["readers"][:-2])[:2])


def gen_rspec(rng, tier, escalate):
    big = tier == "thorough" or escalate
    out = []
    for _ in range(1500 * (4 if big else 1)):
        r = _range_ast(rng)
        if not _too_big(_range_text(r)):
            out.append(r)
    return out


def run_rspec(case):
    from ciscoconfparse2.ccp_util import CiscoRange
    try:
        r = CiscoRange(_range_text(case))
        first = [str(x) for x in r]
        n1 = len(r)
        s = sorted(r.as_set(result_type=str))
        n2 = len(r)
        if sorted(first) != s or n1 != n2 or [str(x) for x in r] != first:
            return ["inconsistent", first, n1, s, n2]
        return [first, n1]
    except BaseException as e:
        return None


def lit_rspec(c, o):
    b = dict(c["base"])
    items = common.listlit(["(%d, %s)" % (a, oN(e)) for a, e in c["items"]])
    if o is None or o[0] == "inconsistent":
        ob = "None"
    else:
        ob = "(Some (%s, %d))" % (common.listlit([S(x) for x in o[0]]), o[1])
    return "(%s, %d, %s, %s)" % (dictlit(_dict_of_ast(b)), c["k"], items, ob)


def nt_rspec(c, o):
    if o is None:
        return None
    return (c["k"], len(c["items"]), any(e is not None for _, e in c["items"]), c["base"]["cls"], len(c["base"]["nums"]))


def known_rspec(c, o, kf):
    ids = {k["id"] for k in kf}
    b = c["base"]
    # F20: iterated component is a sub-interface / channel and there is a later part (every later bare part lacks that component)
    if c["k"] > 0 and len(c["items"]) > 1 and o is None:
        if "F20" in ids:
            return "F20"
        if "F28" in ids:
            return "F28"
    # F28: a '-' in the prefix / class word (the part is split at its first '-')
    if ("-" in b["prefix"] or (b["cls"] is not None and "-" in b["cls"])) and o is None and "F28" in ids:
        return "F28"
    # F27: the class word holds a digit: it is not recognised as a class word (its digits join the end ordinal)
    if _has_digit(b["cls"]) and "F27" in ids and (o is None or (o[0] != "inconsistent" and not any(x.endswith(" " + b["cls"]) for x in o[0]))):
        return "F27"
    return None


def _d_parse(c, o):
    return {"name": c["s"], "as_dict_and_str": o[0], "reparse": o[1]}


def _d_spec(c, o):
    return {"name": _text(c), "expected": [_dict_of_ast(c), _text(c, blank=False)], "observed": o}


def _d_rspec(c, o):
    return {"range_text": _range_text(c), "iterated": ["port", "subinterface", "channel"][c["k"]], "items": c["items"], "observed": o}


STREAMS = [
    Stream("parse", gen_parse, run_parse, lit_parse, PRE, "case_parse", "agree_parse", show="model_parse", nontrivial=nt_parse,
           describe=_d_parse, shard=300, rule="arbitrary strings vs model: as_dict, str, re-parse, ==, hash"),
    Stream("name_spec", gen_spec, run_spec, lit_spec, PRE, "case_spec", "agree_spec", show="model_spec", nontrivial=nt_spec,
           known=known_spec, describe=_d_spec, shard=300, rule="grammar names vs the generator's components (specification)"),
    Stream("order", gen_order, run_order, lit_order, PRE, "case_order", "agree_order", show="model_order", nontrivial=nt_order,
           shard=300, rule="pairs: <, >, ==, and a == b => hash(a) == hash(b)"),
    Stream("sorted", gen_sorted, run_sorted, lit_sorted, PRE, "case_sorted", "agree_sorted", show="model_sorted", nontrivial=nt_sorted,
           shard=200, rule="sorted() of same-shape lists (and mixed pairs)"),
    Stream("range", gen_range, run_range, lit_range, PRE, "case_range", "agree_range", show="model_range", nontrivial=nt_range,
           shard=250, rule="arbitrary range texts x reader sequences vs model"),
    Stream("range_spec", gen_rspec, run_rspec, lit_rspec, PRE, "case_rspec", "agree_rspec", show="model_rspec", nontrivial=nt_rspec,
           known=known_rspec, describe=_d_rspec, shard=250, rule="grammar ranges vs the specification (values of the iterated component, once, ascending)"),
]

TECHNIQUE = ("Coq proofs (unbounded) about a hand-written executable model of the name parser, renderer, ordering and range expansion; "
             "vm_compute correspondence of the real objects against the model and against the specification")
LEVEL_TEXT = ("Machine-checked theorems (Coq 8.16.1, closed under the global context) about the model: parse(render c) = c for every canonical "
              "component tuple, every successful parse yields a canonical tuple whose rendering re-parses to itself, < is the lexicographic order on the "
              "numeric components for interfaces of one shape and is consistent with == and hash, range expansion = the listed values once each in ascending order, "
              "read accessors leave the range unchanged.")
LEVEL_NOTE = ("Trusted: Coq kernel + vm_compute; the hand model of the regular expressions (tied to /repo only by the correspondence streams and fingerprint escalation); "
              "the driver.  Known findings F27, F20/F28 are outside the guards of the theorems and are reported by the specification streams.")
