"""C20 — ASA object-groups and port specs expand to exactly the denoted networks / ports."""
import ipaddress

from runner import Stream
import common
import gen_c20

ID = "C20"
LEVEL = "proof"
PROPS = "Props/C20.vo"
MODEL_TARGETS = ["Corr/C20.vo"]
OBLIGATION_FILES = ["Props/C20.v"]
ANCHORS = [("ciscoconfparse2/models_asa.py", "ASAObjGroupNetwork.network_strings"), ("ciscoconfparse2/models_asa.py", "ASAObjGroupNetwork.networks"),
           ("ciscoconfparse2/models_asa.py", "ASAObjGroupNetwork.__init__"), ("ciscoconfparse2/models_asa.py", "ASAObjGroupNetwork.is_object_for"),
           ("ciscoconfparse2/ciscoconfparse2.py", "ConfigList.asa_object_group_names"), ("ciscoconfparse2/ciscoconfparse2.py", "ConfigList.asa_object_group_network"),
           ("ciscoconfparse2/ciscoconfparse2.py", "ConfigList.asa_access_list"), ("ciscoconfparse2/ccp_util.py", "L4Object.__init__")]
RULE = ("stream groups: ASA configurations rendered from a description (0..5 `name` aliases incl. redefinitions, 1..7 network object-groups "
        "whose group-object references form a DAG of depth 0..4 over host / network / alias / undefined-alias members, netmask "
        "255.255.255.255, descriptions, shuffled definition order, redefined group names, access-lists, unrelated stanzas); malformed: self "
        "reference, 2- and 3-cycles, dangling references, unparsable members.  Compared: the three lookup tables (as sets of entries) "
        "and, per group in config order, network_strings and two successive .networks calls (cache).  non-trivial = a group that expands "
        "through >= 1 group-object and resolves >= 1 alias; distinct by (depth, #aliases resolved, #members).  "
        "stream ports: every operator x bounds {0,1,2,3,79,80,81,65533..65537} x tcp/udp, every named service of both tables under every "
        "operator and as either range bound, blanks variants, cross-table names, malformed specs; thorough: full sweep eq/neq/lt/gt "
        "over 1..65535.  Port lists are compared as maximal +1 runs (injective) with the model AND, for every structured case, with the ports the "
        "spec denotes according to an independent reading in the harness (_expect).  non-trivial = accepted spec; distinct by (operator, argument). Group names are drawn from a pool in which names contain one another (G1/G10, WEB/WEB_DMZ/ALL_WEB_DMZ).")
EXHAUSTIVE = {"quick": False, "thorough": True}
TRUSTED = [
    "Coq 8.16.1 kernel incl. vm_compute (no native_compute)",
    "hand-written Gallina models coq/Model/Asa.v (lookup tables, group expansion, cache) and coq/Model/L4.v (port-spec dispatch chain), tied to /repo by this correspondence "
    "(AST fingerprints escalate the search when the anchored functions change)",
    "harness/gen_c20.py: ASA_TCP_PORTS / ASA_UDP_PORTS are read from protocol_values.py with ast.literal_eval on every run (gen/TabC20.v)",
    "regular expressions of the ASA code (_RE_NAMES, _RE_OBJNET, _RE_OBJACL, _RE_NETOBJECT) are an oracle: the model receives what each rendered line means; "
    "the rendering (harness/props/c20.py _render) is trusted to be a correct ASA rendering of the description",
    "IPv4Obj(string) is an oracle in the .networks clause (its correctness is C11)",
    "Lib/PyStr.py_int as the meaning of Python int() on port tokens (ASCII digits, optional sign)",
    "correspondence driver harness/props/c20.py and the Gallina literal emitter",
]
ASSUMPTIONS = ["configurations are parsed with syntax='asa', factory=True",
               "group expansion is compared for fuel = number of groups + 1 (the recursion depth of an acyclic graph cannot exceed it); deeper recursion = RecursionError = raised",
               "re.search with the anchored regexes depends only on (regex, text)"]

# =========================================================================== groups stream
ACL_TAILS = ["extended permit ip any any", "extended deny ip any any log", "extended permit tcp any any eq 80",
             "standard permit 192.0.2.0 255.255.255.0", "remark some words here", "extended permit ip any any log disable"]
MASKS = ["255.255.255.0", "255.255.0.0", "255.255.255.252", "255.0.0.0", "255.255.255.255", "255.255.255.255", "255.255.255.128"]
GROUP_NAMES = ["G1", "G10", "G", "WEB", "WEB_DMZ", "ALL_WEB_DMZ", "DB", "XDBX", "INSIDE", "INSIDE_addrs", "srv", "DMZ", "DMZ.web", "a.b-c", "net+1", "x:y"]
NOISE = [["!"], ["hostname fw01"], ["interface Ethernet0/0", " nameif OUTSIDE", " ip address 198.51.100.1 255.255.255.0"],
         ["object-group service SVC1 tcp", " port-object eq 80", " port-object range 1 5"],
         ["object network OBJ1", " host 192.0.2.77"], ["names"], ["object-group protocol P1", " protocol-object tcp"],
         ["route OUTSIDE 0.0.0.0 0.0.0.0 198.51.100.254 1"]]


def _ip(rng):
    return "%d.%d.%d.%d" % (rng.choice([1, 10, 172, 192, 203]), rng.randint(0, 255), rng.randint(0, 255), rng.randint(0, 255))


def gen_groups(rng, tier, escalate):
    n = 6000 if tier == "thorough" else (2800 if escalate else 700)
    cases = []
    for i in range(n):
        malformed = i % 6 == 5
        blocks = []
        aliases = ["srv%02d" % k for k in range(rng.randint(0, 5))]
        for a in aliases:
            blocks.append(["name", _ip(rng), a, rng.random() < 0.2])
        if aliases and rng.random() < 0.35:
            blocks.append(["name", _ip(rng), rng.choice(aliases), False])            # redefinition: the later line wins
        ng = rng.randint(1, 7)
        # group names that contain one another (G1/G10, WEB/WEB_DMZ/ALL_WEB_DMZ): identity of a group is its whole name
        gnames = rng.sample(GROUP_NAMES, ng) if rng.random() < 0.6 else ["G%d" % k for k in range(ng)]
        rank = {}
        groups = []
        for k, g in enumerate(gnames):
            members = []
            depth = 0
            for _ in range(rng.randint(0, 5)):
                r = rng.random()
                if r < 0.3:
                    h = rng.choice(aliases) if aliases and rng.random() < 0.5 else (_ip(rng) if rng.random() < 0.9 else "nosuchalias")
                    members.append(["host", h])
                elif r < 0.55:
                    a = rng.choice(aliases) if aliases and rng.random() < 0.4 else _ip(rng)
                    members.append(["net", a, rng.choice(MASKS)])
                elif r < 0.85 and k > 0:
                    cand = [x for x in gnames[:k] if rank[x] < 4]
                    if cand:
                        x = rng.choice(cand)
                        members.append(["group", x])
                        depth = max(depth, rank[x] + 1)
                elif r < 0.93:
                    members.append(["descr", rng.choice(["inside hosts", "x", "group-object G0 moved", "network-object host 9.9.9.9 retired"])])
            rank[g] = depth
            groups.append(["group", g, members])
        if malformed:
            k = rng.random()
            tgt = rng.choice(groups)
            if k < 0.2:
                tgt[2].insert(rng.randint(0, len(tgt[2])), ["group", tgt[1]])                   # self reference
            elif k < 0.4 and ng >= 2:
                a, b = rng.sample(groups, 2)
                a[2].append(["group", b[1]])
                b[2].insert(0, ["group", a[1]])                                                 # 2-cycle
            elif k < 0.55 and ng >= 3:
                a, b, c = rng.sample(groups, 3)
                a[2].append(["group", b[1]]); b[2].append(["group", c[1]]); c[2].append(["group", a[1]])
            elif k < 0.75:
                tgt[2].insert(rng.randint(0, len(tgt[2])), ["group", "NOSUCHGROUP"])            # dangling
            else:
                tgt[2].insert(rng.randint(0, len(tgt[2])), ["other", rng.choice(["network-object object OBJ1", "foo bar", "network-object 1.2.3.4", "group-object"])])
        if rng.random() < 0.15:
            src = rng.choice(groups)
            groups.append(["group", src[1], [["host", _ip(rng)]]])                              # redefinition of a group name
        rng.shuffle(groups)
        blocks += groups
        for _ in range(rng.randint(0, 5)):
            blocks.append(["acl", rng.choice(["INSIDE_in", "OUT", "101", "dmz-acl"]), rng.choice(ACL_TAILS)])
        for _ in range(rng.randint(0, 3)):
            blocks.insert(rng.randint(0, len(blocks)), ["noise", rng.choice(NOISE)])
        if rng.random() < 0.3:
            # names interleaved with the rest instead of leading
            nm = [b for b in blocks if b[0] == "name"]
            rest = [b for b in blocks if b[0] != "name"]
            for b in nm:
                rest.insert(rng.randint(0, len(rest)), b)
            blocks = rest
        cases.append({"blocks": blocks, "malformed": malformed, "ws": rng.randint(0, 3), "maxrank": max(rank.values())})
    return cases


def _render(case):
    """description -> (config lines, names, groups(with line numbers), acls(with line numbers))"""
    lines, names, groups, acls = [], [], [], []
    sp = " " if case.get("ws", 0) != 1 else "  "
    for b in case["blocks"]:
        if b[0] == "name":
            lines.append("name %s %s%s" % (b[1], b[2], " description alias of a server" if b[3] else ""))
            names.append((b[1], b[2]))
        elif b[0] == "group":
            ln = len(lines)
            lines.append("object-group network %s" % b[1])
            mem = []
            for m in b[2]:
                if m[0] == "host":
                    lines.append(" network-object%shost %s" % (sp, m[1])); mem.append(("host", m[1]))
                elif m[0] == "net":
                    lines.append(" network-object %s%s%s" % (m[1], sp, m[2])); mem.append(("net", m[1], m[2]))
                elif m[0] == "group":
                    lines.append(" group-object%s%s" % (sp, m[1])); mem.append(("group", m[1]))
                elif m[0] == "descr":
                    lines.append(" description %s" % m[1]); mem.append(("descr",))
                else:
                    lines.append(" " + m[1]); mem.append(("other",))
            groups.append((b[1], ln, mem))
        elif b[0] == "acl":
            acls.append((b[1], len(lines)))
            lines.append("access-list %s %s" % (b[1], b[2]))
        else:
            lines.extend(b[1])
    return lines, names, groups, acls


def run_groups(case):
    from ciscoconfparse2 import CiscoConfParse
    from ciscoconfparse2.ccp_util import IPv4Obj
    lines, _, _, _ = _render(case)
    try:
        parse = CiscoConfParse(lines, syntax="asa", factory=True)
    except BaseException as e:
        return {"parse_error": "%s: %s" % (type(e).__name__, str(e)[:200])}
    out = {}
    try:
        d = parse.objs.asa_object_group_names
        out["names"] = [[str(k), str(v)] for k, v in d.items()] if all(isinstance(k, str) and isinstance(v, str) for k, v in d.items()) else None
    except BaseException:
        out["names"] = None
    try:
        d = parse.objs.asa_object_group_network
        out["groups"] = [[str(k), int(v.linenum)] for k, v in d.items()]
    except BaseException:
        out["groups"] = None
    try:
        d = parse.objs.asa_access_list
        out["acls"] = [[str(k), [int(o.linenum) for o in v]] for k, v in d.items()]
    except BaseException:
        out["acls"] = None
    per = []
    strings = set()
    for obj in parse.objs:
        if type(obj).__name__ != "ASAObjGroupNetwork":
            continue
        try:
            ns = obj.network_strings
            ns = list(ns) if all(isinstance(s, str) for s in ns) else None
        except BaseException:
            ns = None
        nets = []
        for _ in range(2):
            try:
                nets.append([[int(n.as_decimal), int(n.prefixlen)] for n in obj.networks])
            except BaseException:
                nets.append(None)
        if ns is not None:
            strings.update(ns)
        per.append([int(obj.linenum), ns, nets[0], nets[1]])
    oracle = []
    for s in sorted(strings):
        try:
            o = IPv4Obj(s)
            oracle.append([s, [int(o.as_decimal), int(o.prefixlen)]])
        except BaseException:
            oracle.append([s, None])
    out["per"] = per
    out["oracle"] = oracle
    return out


def _s(x):
    return common.strlit(x)


def _zz(p):
    return "(%s, %s)" % (common.zlit(p[0]), common.zlit(p[1]))


def _member_lit(m):
    if m[0] == "host":
        return "(MHost %s)" % _s(m[1])
    if m[0] == "net":
        return "(MNet %s %s)" % (_s(m[1]), _s(m[2]))
    if m[0] == "group":
        return "(MGroup %s)" % _s(m[1])
    return "MDescr" if m[0] == "descr" else "MOther"


def lit_groups(c, o):
    _, names, groups, acls = _render(c)
    L = common.listlit
    nm = L("(%s, %s)" % (_s(a), _s(n)) for a, n in names)
    gs = L("(%s, %d, %s)" % (_s(g), ln, L(_member_lit(m) for m in mem)) for g, ln, mem in groups)
    ac = L("(%s, %d)" % (_s(n), ln) for n, ln in acls)
    if "parse_error" in o or o["names"] is None or o["groups"] is None or o["acls"] is None:
        # a table accessor (or the parser) raised: never agrees with the model
        return "(%s, %s, %s, [], ([(%s, %s); (%s, %s)], [], [], []))" % (nm, gs, ac, _s("?"), _s("?"), _s("?"), _s("?"))
    orc = L("(%s, %s)" % (_s(s), common.optlit(v, _zz)) for s, v in o["oracle"])
    on = L("(%s, %s)" % (_s(k), _s(v)) for k, v in o["names"])
    og = L("(%s, %d)" % (_s(k), v) for k, v in o["groups"])
    oa = L("(%s, %s)" % (_s(k), L(str(x) for x in v)) for k, v in o["acls"])
    per = L("(%s, %s, %s)" % (common.optlit(p[1], lambda l: L(_s(x) for x in l)),
                             common.optlit(p[2], lambda l: L(_zz(x) for x in l)),
                             common.optlit(p[3], lambda l: L(_zz(x) for x in l))) for p in o["per"])
    return "(%s, %s, %s, %s, (%s, %s, %s, %s))" % (nm, gs, ac, orc, on, og, oa, per)


def nontrivial_groups(c, o):
    """a group that expands through >= 1 group-object while >= 1 alias is resolved somewhere in its expansion"""
    if "parse_error" in o or c["malformed"] or o.get("names") is None:
        return None
    _, names, groups, _ = _render(c)
    alias_addr = {v for _, v in o["names"]}
    best = None
    for (g, ln, mem), p in zip(groups, o["per"]):
        if p[1] is None:
            continue
        ng = sum(1 for m in mem if m[0] == "group")
        na = sum(1 for s in p[1] if s.split("/")[0] in alias_addr)
        if ng >= 1 and na >= 1:
            key = (c["maxrank"], ng, na, len(p[1]))
            best = key if best is None or key > best else best
    return best


def describe_groups(c, o):
    lines = _render(c)[0]
    return {"config": lines, "impl": {k: o.get(k) for k in ("names", "groups", "acls", "per", "parse_error") if k in o}}


# =========================================================================== ports stream
OPS = ["eq", "neq", "lt", "gt", "range", "bare"]
PB = [0, 1, 2, 3, 79, 80, 81, 65533, 65534, 65535, 65536, 65537]


def _spec(op, a, b=None, sep=" ", lead="", trail=""):
    if op == "bare":
        core = str(a)
    elif op == "range":
        core = "range%s%s%s%s" % (sep, a, sep, b)
    else:
        core = "%s%s%s" % (op, sep, a)
    return lead + core + trail


def _expect(tab, op, a, b=None):
    """the ports a structured spec DENOTES (the property's own reading, independent of the implementation):
    runs of the denoted subset of 1..65535, or "raise" when the bounds are invalid / the name is unknown"""
    def val(x):
        return x if isinstance(x, int) else tab.get(x)
    v = val(a)
    if v is None:
        return "raise"
    if op in ("eq", "bare"):
        return [[v, v]] if 1 <= v <= 65535 else "raise"
    if op == "neq":
        return [r for r in ([1, v - 1], [v + 1, 65535]) if r[0] <= r[1]] if 1 <= v <= 65535 else "raise"
    if op == "lt":
        return [[1, v - 1]] if 2 <= v <= 65535 else "raise"
    if op == "gt":
        return [[v + 1, 65535]] if 1 <= v <= 65534 else "raise"
    w = val(b)
    if w is None:
        return "raise"
    return [[v, w]] if 1 <= v <= w <= 65535 else "raise"


def gen_ports(rng, tier, escalate):
    big = tier == "thorough"
    tabs = gen_c20.tables()
    cases = []

    def add(proto, spec, syntax="asa", sem=None):
        # key = the structured reading (operator, argument, second argument) when the harness knows it
        cases.append({"proto": proto, "spec": spec, "syntax": syntax, "key": None if sem is None else [sem[0], sem[1], sem[2]]})

    for proto in ("tcp", "udp"):
        for op in OPS:
            if op == "range":
                for a in PB:
                    for b in PB:
                        add(proto, _spec(op, a, b), sem=(op, a, b))
            else:
                for a in PB:
                    add(proto, _spec(op, a), sem=(op, a, None))
        # every named service under every operator, and as a range bound
        for name, val in tabs[proto].items():
            for op in OPS:
                if op == "range":
                    add(proto, _spec(op, name, 65535), sem=(op, name, 65535))
                    add(proto, _spec(op, 1, name), sem=(op, 1, name))
                    other = rng.choice(list(tabs[proto]))
                    add(proto, _spec(op, name, other), sem=(op, name, other))
                    add(proto, _spec(op, other, name), sem=(op, other, name))
                else:
                    add(proto, _spec(op, name), sem=(op, name, None))
        # names of the other table are unknown here
        other = "udp" if proto == "tcp" else "tcp"
        for name in tabs[other]:
            if name not in tabs[proto]:
                op = rng.choice(OPS[:4])
                add(proto, _spec(op, name), sem=(op, name, None))
    # random numeric arguments and blanks variants
    for _ in range(12000 if big else (3600 if escalate else 900)):
        proto = rng.choice(["tcp", "udp"])
        op = rng.choice(OPS)
        a = rng.choice([rng.randint(1, 65535), rng.randint(1, 1100), rng.choice(PB)])
        b = rng.choice([rng.randint(1, 65535), a, a + 1, a - 1, rng.choice(PB)])
        sep = rng.choice([" ", " ", " ", "  ", " \t", "\t", "   "])
        lead = rng.choice(["", "", " ", "\t ", "\n"])
        trail = rng.choice(["", "", " ", "  \t", "\r\n"])
        # a separator that starts with a blank keeps the operator recognisable; a bare TAB does not (no expectation then)
        sem = (op, a, b if op == "range" else None) if (sep[0] == " " or op == "bare") else None
        add(proto, _spec(op, a, b, sep, lead, trail), sem=sem)
    # malformed
    BAD = ["", " ", "eq", "eq ", "neq", "lt", "gt", "range", "range 5", "range 5 ", "range a b", "range 1 b", "eq x", "lt x", "gt x", "neq x",
           "foo bar", "eq 80 90", "range 1 5 9", "x range 1 5", "eq -1", "eq +80", "eq 080", "lt 0", "gt -1", "1 2", "range1 5", "xeq 80",
           "xneq 80", "range 1 5 eq 7", "lt 5 gt 3", "gt 5 lt 9", "range 5 9 lt 3", "eq\t80", "range\t1 5", "le 5", "ge 5", "eq 80.0",
           "eq 8 0", "-5", "+5", "0", "65536", "www www", "range www", "neq 1 2", "lt lt 5", "range 10 lt 20"]
    for s in BAD:
        for proto in ("tcp", "udp"):
            add(proto, s)
    for proto, syntax in [("icmp", "asa"), ("", "asa"), ("tcp", "ios"), ("tcp", ""), ("TCP", "asa"), ("tcp-udp", "asa")]:
        add(proto, "eq 80", syntax)
    if big:
        for p in range(1, 65536):
            add("tcp", "eq %d" % p, sem=("eq", p, None))
        for p in range(1, 65536, 4):
            q = p + rng.randint(0, 3)
            add("udp", "neq %d" % q, sem=("neq", q, None))
            add("tcp", "lt %d" % q, sem=("lt", q, None))
            add("udp", "gt %d" % q, sem=("gt", q, None))
    return cases


def _runs(lst):
    out = []
    for x in lst:
        if out and x == out[-1][1] + 1:
            out[-1][1] = x
        else:
            out.append([x, x])
    return out


def run_ports(case):
    from ciscoconfparse2.ccp_util import L4Object
    try:
        pl = L4Object(protocol=case["proto"], port_spec=case["spec"], syntax=case["syntax"]).port_list
    except BaseException:
        return None
    if not isinstance(pl, list) or not all(type(x) is int for x in pl):
        return [[-1, -1]]
    return _runs(pl)


def _runs_lit(rs):
    # a correct port list has at most two runs; a (wrong) observation with thousands is cut and marked with a run the
    # model can never produce, so that it still disagrees but cannot exhaust coqc's memory
    if len(rs) > 3000:
        rs = list(rs[:3000]) + [[-7, -7]]
    return common.listlit(_zz(r) for r in rs)


_TABS = {}


def _expectation(c):
    """None = no expectation (unstructured case, or a name that is not a service of the CURRENT table: unknown names are
    outside the property's quantifier); otherwise what the spec denotes, computed from the repository's current tables"""
    k = c.get("key")
    if not k or c["syntax"] != "asa" or c["proto"] not in ("tcp", "udp"):
        return None
    if not _TABS:
        _TABS.update(gen_c20.tables())
    tab = _TABS[c["proto"]]
    for x in (k[1], k[2]):
        if isinstance(x, str) and x not in tab:
            return None
    return _expect(tab, k[0], k[1], k[2])


def lit_ports(c, o):
    e = _expectation(c)
    exp = "None" if e is None else ("(Some None)" if e == "raise" else "(Some (Some %s))" % _runs_lit(e))
    return "(%s, %s, %s, %s, %s)" % (_s(c["proto"]), _s(c["spec"]), _s(c["syntax"]), common.optlit(o, _runs_lit), exp)


def nontrivial_ports(c, o):
    if o is None or c.get("key") is None:
        return None
    return (c["proto"],) + tuple(str(x) for x in c["key"])


def describe_ports(c, o):
    return {"protocol": c["proto"], "port_spec": c["spec"], "syntax": c["syntax"],
            "impl_port_list_as_runs": "raised" if o is None else o[:6], "denoted_ports_as_runs": _expectation(c)}


PRE = ("From Coq Require Import NArith ZArith List. Import ListNotations. "
       "Require Import CCP.Model.Asa CCP.Model.L4 CCP.Corr.C20. Open Scope Z_scope.")
STREAMS = [
    Stream("groups", gen_groups, run_groups, lit_groups, preamble=PRE, ctype="case20g", agree="agree20g", show="model20g",
           nontrivial=nontrivial_groups, describe=describe_groups, shard=100,
           rule="rendered ASA configs: alias tables x group DAGs depth 0..4, redefinitions, cycles/dangling/unparsable members"),
    Stream("ports", gen_ports, run_ports, lit_ports, preamble=PRE, ctype="case20p", agree="agree20p", show="model20p",
           nontrivial=nontrivial_ports, describe=describe_ports, shard=150,
           rule="operators x boundary ports x all named services x blanks variants + malformed; thorough: full eq sweep, 1/4 sweeps of neq/lt/gt"),
]

TECHNIQUE = ("Coq proof (unbounded: all group graphs with a rank function, all alias tables, all ports and operators) about hand-written Gallina models of "
             "ASAObjGroupNetwork.network_strings/.networks, the three ConfigList lookup tables and L4Object; name tables regenerated from protocol_values.py; "
             "vm_compute correspondence of the real parser/objects against the models")
LEVEL_TEXT = ("Machine-checked theorems (Coq 8.16.1, closed under the global context): for every configuration description whose group-object references admit a rank "
              "function, network_strings of a group is exactly the in-order flattening of its members with aliases resolved (and is independent of the fuel); self "
              "references, dangling references and unparsable members raise; each lookup table maps exactly the defined names to the last (names, groups) / all "
              "(access-lists) defining lines; .networks is map IPv4Obj over network_strings for any consistent cache.  For every operator, every port number n and "
              "every service name of the regenerated tables, a valid spec yields exactly filter (denote op n) [1..65535] in ascending order and an invalid one raises; "
              "no service name collides with an operator keyword (checked over the regenerated tables).  Models are tied to /repo by correspondence.")
LEVEL_NOTE = ("Trusted: Coq kernel + vm_compute; the hand-written models (tied by correspondence + fingerprint escalation); the regex oracle (the harness renders descriptions to "
              "config text, so the anchored regexes are exercised only on rendered shapes); IPv4Obj as a parameter; py_int as int(). The port theorems are stated for the "
              "canonical single-space renderings with arbitrary surrounding blanks; other spacings are covered by correspondence only.")
