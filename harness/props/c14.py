"""C14 — integer range strings expand to the denoted set and compress back canonically."""
import itertools
import re
import json
import os
import subprocess
import sys

from runner import Stream
import common

ID = "C14"
LEVEL = "proof"
PROPS = "Props/C14.vo"
MODEL_TARGETS = ["Corr/C14.vo"]
OBLIGATION_FILES = ["Props/C14.v"]
ANCHORS = [("ciscoconfparse2/ccp_util.py", "CiscoRange.__init__"), ("ciscoconfparse2/ccp_util.py", "CiscoRange.parse_integers"),
           ("ciscoconfparse2/ccp_util.py", "CiscoRange.as_list"), ("ciscoconfparse2/ccp_util.py", "CiscoRange.as_set"),
           ("ciscoconfparse2/ccp_util.py", "CiscoRange.as_compressed_str"), ("ciscoconfparse2/ccp_util.py", "CiscoRange.append"),
           ("ciscoconfparse2/ccp_util.py", "CiscoRange.remove"), ("ciscoconfparse2/ccp_util.py", "CiscoRange.attribute_sort"),
           ("ciscoconfparse2/ccp_util.py", "CiscoRange.__len__"), ("ciscoconfparse2/ccp_util.py", "CiscoRange.__iter__"),
           ("ciscoconfparse2/ccp_util.py", "CiscoRange.member_type")]
RULE = ("stream ranges: (i) every list of <= 2 parts over 0..4 (single values and a-b with any order of a,b) and every subset of 0..9 "
        "written as a csv, each followed by list/str/iter/set/len; (ii) random lists of 1..7 intervals over 0..70000 biased to the "
        "boundaries 0, 65535/65536, 70000, shuffled, with overlapping, nested, adjacent and duplicated intervals, blanks "
        "(space, tab, newline, VT, FF, NBSP, EM SPACE) around numbers and hyphens, '+' signs and leading zeros, followed by up to 25 "
        "calls drawn from len/iter/as_list/as_set/as_compressed_str/in/append/remove with arguments at and next to members; "
        "(iii) a few ranges of 20 000..70 001 members; (iv) malformed texts (double comma, several hyphens, empty parts, "
        "non-numeric, reversed bounds).  After the constructor and after EVERY call the `data` attribute and the call's result are "
        "compared with the model (lists transported as maximal +1 runs, an injective encoding).  non-trivial = the denoted set "
        "straddles 65536 (hash order of a Python set differs from numeric order), or two parts overlap/duplicate, or the text "
        "is not in ascending order; distinct by text.  aux: the same calls under PYTHONHASHSEED 1, 2 and random in subprocesses "
        "must give the observations of the pool (seed 0). One random case in six is repeated with reverse=True (only as_list() is turned round; the stored members and every other reader are unaffected).")
EXHAUSTIVE = {"quick": True, "thorough": True}   # part (i) of RULE is a full enumeration at the stated bound
TRUSTED = [
    "Coq 8.16.1 kernel incl. vm_compute (no native_compute); Coq.Sorting.Mergesort from the standard library",
    "hand-written Gallina model coq/Model/Range.v of CiscoRange(result_type=int) (constructor, parse_integers, accessors, append, remove), "
    "tied to /repo by this correspondence only (AST fingerprints escalate the search when the anchored functions change)",
    "Lib/PyStr.py_int as the meaning of Python int() on the generated alphabet (ASCII digits, optional sign, blanks other than U+001C..U+001F; "
    "no underscores / non-ASCII digits)",
    "correspondence driver harness/props/c14.py incl. its run-length encoder of observed lists, and the Gallina literal emitter",
]
ASSUMPTIONS = ["result_type=int and int arguments to append/remove/in (other member types belong to C15)",
               "texts are over ASCII digits, '+', ',', '-', blanks and (malformed stream) a few letters",
               "a set returned by as_set is observed through sorted(); `data` is observed by reading the attribute"]

BLANKS = ["", "", "", "", " ", " ", "  ", "\t", " \t ", "\n", "\r", "\x0b", "\x0c", "\xa0", " "]
BOUNDS = [0, 1, 2, 9, 10, 11, 99, 100, 4094, 4095, 4096, 65533, 65534, 65535, 65536, 65537, 69998, 69999, 70000]
READERS = ["len", "iter", "list", "set", "str"]


def runs(lst):
    """[1,2,3,7,9,10] -> [[1,3],[7,7],[9,10]]: maximal segments with step +1 (injective)."""
    out = []
    for x in lst:
        if out and x == out[-1][1] + 1:
            out[-1][1] = x
        else:
            out.append([x, x])
    return out


# --------------------------------------------------------------------------- generation
def _num(rng, n, plain):
    if plain:
        return str(n)
    r = rng.random()
    if r < 0.06:
        return "+" + str(n)
    if r < 0.12:
        return "0" * rng.randint(1, 3) + str(n)
    return str(n)


def _render(parts, rng, plain=False):
    out = []
    for p in parts:
        ws = (lambda: "") if plain else (lambda: rng.choice(BLANKS))
        if len(p) == 1:
            out.append(ws() + _num(rng, p[0], plain) + ws())
        else:
            out.append(ws() + _num(rng, p[0], plain) + ws() + "-" + ws() + _num(rng, p[1], plain) + ws())
    return ",".join(out)


def _value(rng):
    r = rng.random()
    if r < 0.35:
        return min(70000, max(0, rng.choice(BOUNDS) + rng.randint(-3, 3)))
    if r < 0.6:
        return rng.randint(0, 40)
    return rng.randint(0, 70000)


def _parts(rng):
    n = rng.randint(1, 7)
    parts = []
    for _ in range(n):
        r = rng.random()
        if parts and r < 0.35:
            # derived from an earlier part: duplicate, overlap, nest, adjacent
            q = rng.choice(parts)
            lo, hi = q[0], q[-1]
            k = rng.random()
            if k < 0.2:
                parts.append(list(q))
            elif k < 0.5:
                a = max(0, lo + rng.randint(-4, 4))
                parts.append([a, min(70000, max(a, hi) + rng.randint(0, 4))])
            elif k < 0.7:
                parts.append([min(70000, hi + 1)])
            elif k < 0.85:
                parts.append([min(70000, hi + 1), min(70000, hi + 1 + rng.randint(0, 5))])
            else:
                parts.append([max(0, lo - 1)])
            continue
        a = _value(rng)
        if r < 0.6:
            parts.append([a])
        else:
            w = rng.choice([0, 1, 1, 2, 2, 3, 4, 5, 8, 13, 40])
            b = min(70000, a + w)
            if rng.random() < 0.05:
                a, b = b, a      # reversed bounds denote the empty set
            parts.append([a, b])
    rng.shuffle(parts)
    return parts


def _members(parts):
    s = set()
    for p in parts:
        s.update(range(p[0], p[-1] + 1))
    return s


def _ops(rng, members, n):
    ops = []
    cur = set(members)
    for _ in range(n):
        r = rng.random()
        if r < 0.5:
            ops.append([rng.choice(READERS)])
            continue
        # argument: a member, a neighbour of a member, a boundary, or anything
        k = rng.random()
        if cur and k < 0.45:
            v = rng.choice(sorted(cur))
        elif cur and k < 0.8:
            v = max(0, rng.choice(sorted(cur)) + rng.choice([-2, -1, 1, 2]))
        elif k < 0.9:
            v = rng.choice(BOUNDS)
        else:
            v = rng.randint(0, 70000)
        kind = rng.choice(["contains", "append", "append", "remove", "remove"])
        ops.append([kind, v])
        if kind == "append":
            cur.add(v)
        elif kind == "remove":
            cur.discard(v)
    return ops


MALFORMED = ["1,,2", ",,", "1--3", "1-2-3", "-5", "5-", "-", ",", ",1", "1,", " ", "a", "1-a", "a-3", "1-3x", "1 2", "1 2-4", "1-2 3",
             "3-1", "5-5", "10-9,4", "1;2", "1.5", "0x10", "1-+3", "+1-3", "1-++3", "+ 1", "--", "1,-,2", "7,,", "1- ,2", "²"]


def gen(rng, tier, escalate):
    big = tier == "thorough"
    # volume: quick 1x, quick + escalation (anchored source changed / an obligation broke) 4x, thorough 13x, thorough + escalation 20x
    k = {(False, False): 1, (False, True): 4, (True, False): 13, (True, True): 20}[(big, bool(escalate))]
    cases = []
    # (i) exhaustive small bound
    atoms = [[a] for a in range(5)] + [[a, b] for a in range(5) for b in range(5)]
    chk = [["list"], ["str"], ["iter"], ["set"], ["len"]]
    for p in atoms:
        cases.append({"kind": "exh1", "text": _render([p], rng, plain=True), "ops": chk})
    for p, q in itertools.product(atoms, atoms):
        cases.append({"kind": "exh2", "text": _render([p, q], rng, plain=True), "ops": chk})
    for mask in range(1, 1 << (10 if k == 1 else 12)):
        vals = [i for i in range(12) if mask >> i & 1]
        cases.append({"kind": "subset", "text": ",".join(map(str, vals)), "ops": [["str"], ["list"]]})
    # (ii) random interval lists + call sequences
    n = 3000 * k
    for i in range(n):
        parts = _parts(rng)
        text = _render(parts, rng, plain=(i % 5 == 0))
        nops = rng.choice([0, 2, 5, 10, 25]) if i % 3 else 25
        cases.append({"kind": "random", "text": text, "ops": _ops(rng, _members(parts), nops), "parts": parts})
        if i % 6 == 1:
            cases.append({"kind": "reverse", "text": text, "ops": _ops(rng, _members(parts), rng.choice([3, 8, 15])), "parts": parts, "reverse": True})
    # compress / re-expand: the compressed string of a random range is fed back as a text
    for i in range(120 * k):
        vals = sorted(_members(_parts(rng)))
        cases.append({"kind": "reparse", "text": _compress_ref(vals), "ops": [["str"], ["list"], ["len"]]})
    # (iii) large ranges
    large = []
    for i in range(5 + 2 * k):
        a = rng.choice([0, 1, rng.randint(0, 30000)])
        b = rng.choice([70000, 65536, rng.randint(a + 20000, 70000)])
        parts = [[a, b], [rng.randint(0, 70000)], [max(0, b - 10), min(70000, b + 5)]]
        rng.shuffle(parts)
        large.append({"kind": "large", "text": _render(parts, rng), "parts": parts,
                      "ops": [["len"], ["str"], ["remove", (a + b) // 2], ["str"], ["append", (a + b) // 2], ["list"], ["contains", b]]})
    # (iv) malformed
    for t in MALFORMED:
        cases.append({"kind": "malformed", "text": t, "ops": [["list"], ["str"]]})
    for i in range(200 * k):
        parts = _parts(rng)
        text = _render(parts, rng)
        pos = rng.randint(0, len(text))
        ins = rng.choice([",", "-", ",,", "x", " ", "-1", ",-"])
        text = text[:pos] + ins + text[pos:] if rng.random() < 0.7 else text[:pos] + text[pos + 1:]
        if any(int(d) > 200000 for d in re.findall(r"\d+", text)):
            continue            # a deletion merged two numbers: the range would have millions of members (memory, not logic)
        cases.append({"kind": "mutated", "text": text, "ops": [["list"], ["str"], ["len"]]})
    cases.append({"kind": "empty", "text": "", "ops": [["len"], ["list"], ["set"], ["str"], ["iter"], ["contains", 1], ["remove", 1],
                                                       ["append", 5], ["append", 5], ["append", 3], ["list"], ["str"], ["remove", 5], ["iter"]]})
    # the large cases are spread over the shards (one coqc each)
    step = max(1, len(cases) // (len(large) + 1))
    for k, c in enumerate(large):
        cases.insert(min(len(cases), (k + 1) * step), c)
    return cases


def _compress_ref(vals):
    """canonical compressed string of a sorted duplicate-free list (only used to GENERATE texts)."""
    out = []
    for a, b in runs(vals):
        out.append(str(a) if a == b else ("%d,%d" % (a, b) if b == a + 1 else "%d-%d" % (a, b)))
    return ",".join(out)


# --------------------------------------------------------------------------- implementation side
def _enc_list(x):
    x = list(x)
    if not all(type(v) is int for v in x):
        return ["raised"]
    return ["runs", runs(x)]


def _data(r):
    d = r.data
    if not isinstance(d, list) or not all(type(v) is int for v in d):
        return [[-1, -1]]
    return runs(d)


def observe(case):
    from ciscoconfparse2.ccp_util import CiscoRange
    try:
        r = CiscoRange(case["text"], result_type=int, reverse=bool(case.get("reverse")))
        ctor = _data(r)
    except BaseException:
        return {"ctor": None, "steps": []}
    steps = []
    for op in case["ops"]:
        k = op[0]
        try:
            if k == "len":
                out = ["int", len(r)]
            elif k == "iter":
                out = _enc_list(iter(r))
            elif k == "list":
                lst = r.as_list()
                # reverse=True only turns the returned list round (descending); the stored members and every other reader are as without it
                out = _enc_list(list(lst)[::-1] if case.get("reverse") and isinstance(lst, list) else lst)
            elif k == "set":
                out = _enc_list(sorted(r.as_set()))
            elif k == "str":
                s = r.as_compressed_str()
                out = ["str", s] if isinstance(s, str) else ["raised"]
            elif k == "contains":
                out = ["bool", bool(op[1] in r)]
            elif k == "append":
                r.append(op[1])
                out = ["done"]
            elif k == "remove":
                r.remove(op[1])
                out = ["done"]
            else:
                raise KeyError(k)
        except KeyError:
            raise
        except BaseException:
            out = ["raised"]
        steps.append([_data(r), out])
    return {"ctor": ctor, "steps": steps}


def run(case):
    return observe(case)


# --------------------------------------------------------------------------- literals
RUNS_CAP = 3000


def _runs_lit(rs):
    # a correct list of the generated sizes has a few hundred runs at most; a (wrong) observation with more is cut and
    # marked with a run the model can never produce, so that it still disagrees but cannot exhaust coqc's memory
    if len(rs) > RUNS_CAP:
        rs = list(rs[:RUNS_CAP]) + [[-7, -7]]
    return common.listlit("(%s, %s)" % (common.zlit(a), common.zlit(b)) for a, b in rs)


def _op_lit(op):
    k = op[0]
    if k in ("contains", "append", "remove"):
        return "(%s %s)" % ({"contains": "OContains", "append": "OAppend", "remove": "ORemove"}[k], common.zlit(op[1]))
    return {"len": "OLen", "iter": "OIter", "list": "OList", "set": "OSet", "str": "OStr"}[k]


def _out_lit(o):
    k = o[0]
    if k == "int":
        return "(XInt %s)" % common.zlit(o[1])
    if k == "runs":
        return "(XRuns %s)" % _runs_lit(o[1])
    if k == "str":
        return "(XStr %s)" % common.strlit(o[1])
    if k == "bool":
        return "(XBool %s)" % common.blit(o[1])
    if k == "done":
        return "XDone"
    return "XRaised"


def lit(c, o):
    steps = common.listlit("(%s, %s)" % (_runs_lit(d), _out_lit(v)) for d, v in o["steps"])
    return "(%s, %s, (%s, %s))" % (common.strlit(c["text"]), common.listlit(_op_lit(x) for x in c["ops"]),
                                   common.optlit(o["ctor"], _runs_lit), steps)


def nontrivial(c, o):
    if o["ctor"] is None:
        return None
    rs = o["ctor"]
    straddle = bool(rs) and rs[0][0] < 65536 <= rs[-1][1]
    parts = c.get("parts")
    overlap = unordered = False
    if parts:
        tot = sum(max(0, p[-1] - p[0] + 1) for p in parts)
        overlap = tot != sum(b - a + 1 for a, b in rs)
        flat = [p[0] for p in parts]
        unordered = flat != sorted(flat)
    if straddle or overlap or unordered:
        return c["text"]
    return None


def describe(c, o):
    return {"text": c["text"], "calls": c["ops"][:8], "kind": c["kind"],
            "impl_data_after_ctor_as_runs": o["ctor"] if o["ctor"] is None else o["ctor"][:8],
            "impl_steps": [s for s in o["steps"][:4]]}


STREAMS = [Stream("ranges", gen, run, lit,
                  preamble="From Coq Require Import NArith ZArith List. Import ListNotations. Require Import CCP.Model.Range CCP.Corr.C14. Open Scope Z_scope.",
                  ctype="case14", agree="agree14", show="model14", nontrivial=nontrivial, describe=describe, shard=200,
                  rule="exhaustive small parts + subsets, random interval lists with call sequences, large ranges, malformed")]


# --------------------------------------------------------------------------- aux: hash seeds
_CHILD = r"""
import sys, json
sys.path.insert(0, %r); sys.path.insert(0, %r)
import common
common.setup_impl()
import ciscoconfparse2
from loguru import logger
logger.remove()
from props import c14
cases = json.load(sys.stdin)
json.dump([c14.observe(c) for c in cases], sys.stdout)
"""


def aux(rng, tier, escalate):
    """The observations must not depend on the hash seed (sets of ints are iterated by the implementation)."""
    common.setup_impl()
    import ciscoconfparse2  # noqa: F401
    from loguru import logger
    logger.remove()
    n = 1200 if tier == "thorough" else (600 if escalate else 300)
    cases = []
    for i in range(n):
        parts = _parts(rng)
        cases.append({"kind": "seed", "text": _render(parts, rng), "ops": _ops(rng, _members(parts), 8) + [["list"], ["set"], ["str"], ["iter"]]})
    base = [observe(c) for c in cases]
    failures = []
    evals = 0
    here = os.path.dirname(os.path.dirname(os.path.abspath(__file__)))
    for seed in ("1", "2", "random"):
        env = dict(os.environ, PYTHONHASHSEED=seed)
        p = subprocess.run([sys.executable, "-c", _CHILD % (common.REPO, here)], input=json.dumps(cases), env=env,
                           stdout=subprocess.PIPE, stderr=subprocess.PIPE, text=True, timeout=600)
        if p.returncode != 0:
            failures.append({"case": {"PYTHONHASHSEED": seed}, "observed": p.stderr[-800:], "detail": "hash-seed child process failed"})
            continue
        got = json.loads(p.stdout)
        for c, b, g in zip(cases, base, got):
            evals += 1
            if b != g:
                failures.append({"case": {"text": c["text"], "ops": c["ops"], "PYTHONHASHSEED": seed}, "observed": g, "expected": b,
                                 "detail": "observations differ between PYTHONHASHSEED=0 and PYTHONHASHSEED=%s" % seed})
                break
    return {"evaluations": evals, "failures": failures,
            "note": "same calls under PYTHONHASHSEED 1, 2, random (subprocesses) give the observations of the seed-0 pool (test)"}


TECHNIQUE = ("Coq proof (unbounded: all interval lists, all texts with blanks, all call sequences) about a hand-written Gallina model of "
             "CiscoRange(result_type=int); vm_compute correspondence of the real object against the model after every call")
LEVEL_TEXT = ("Machine-checked theorems (Coq 8.16.1, closed under the global context) about the executable model of CiscoRange(result_type=int): "
              "the constructor applied to ANY rendering (any order, overlaps, duplicates, blanks) of a list of intervals yields exactly the "
              "ascending duplicate-free list of the union; every ordered view is ascending; as_compressed_str is the comma-join of the maximal "
              "runs (a / a,b / a-b) and the constructor re-expands it to the same list; append/remove are sorted-set insert/delete and raise "
              "on duplicates / absent members; no sequence of read accessors changes the data.  The model is tied to /repo by a correspondence "
              "run that compares `data` and every result after every call.")
LEVEL_NOTE = ("Trusted: Coq kernel + vm_compute; the hand-written model (tied by correspondence and AST-fingerprint escalation, not by translation); "
              "py_int as the meaning of int() on the generated alphabet; the correspondence driver. Hash-seed independence is a test (aux), not a theorem: "
              "the model has no notion of hash order because sorted(set(.)) is modelled by its specification-level meaning (merge sort + adjacent de-duplication).")
