"""C18 — the command-line greps are order-preserving filters."""
import contextlib
import io
import ipaddress
import os
import re
import shlex
import shutil
import tempfile

from runner import Stream
import common

ID = "C18"
LEVEL = "proof"
PROPS = "Props/C18.vo"
MODEL_TARGETS = ["Corr/C18.vo"]
OBLIGATION_FILES = ["Props/C18.v"]
_C = "ciscoconfparse2/cli_script.py"
ANCHORS = [(_C, "ccp_script_entry"), (_C, "ArgParser.build_command_args_ipgrep"), (_C, "ArgParser.build_command_args_macgrep"),
           (_C, "ArgParser.build_command_args_parent"), (_C, "ArgParser.build_command_args_child"), (_C, "ArgParser.build_command_args_branch"),
           (_C, "ArgParser.build_command_args_diff"), (_C, "CliApplication.__init__"), (_C, "CliApplication.ipgrep_command"),
           (_C, "CliApplication.find_ip46_addr_matches"), (_C, "CliApplication.find_ip46_line_matches"),
           (_C, "CliApplication.check_ip46_host_exclusion_args"), (_C, "CliApplication.check_ip46_net_exclusion_args"),
           (_C, "CliApplication.macgrep_command"), (_C, "CliApplication.find_maceui_addr_matches"), (_C, "CliApplication.find_maceui_line_matches"),
           (_C, "MACEUISearch.__init__"), (_C, "MACEUISearch.search_all_formats"), (_C, "CliApplication.parent_command"),
           (_C, "CliApplication.child_command"), (_C, "CliApplication.branch_command"), (_C, "CliApplication.diff_command"),
           (_C, "CliApplication.print_all_stdout")]
RULE = ("stream ipgrep: texts of 0..14 words drawn from valid / boundary (network-1, network, last, last+1 of every requested subnet, host and "
        "network spellings, wider and narrower prefixes) / invalid address-like words, joined by blanks, tabs, newlines, commas or semicolons, x subnet lists "
        "(IPv4, IPv6, mixed, overlapping, duplicate, host, /0, unparsable) or -4/-6 x {--unique, --line, --show-cidr, --show-networks, --exclude-hosts} x "
        "word delimiter; `ccp ipgrep` is run in-process on a temporary file and CliApplication.stdout + the process stdout are compared with the model, "
        "which receives per word the standard library's reading of it as an address (oracle; the reading C11 shows IPv4Obj/IPv6Obj to have) and the three renderings of that value. "
        "stream macgrep: the same for MAC/EUI-64 words in four spellings and invalid look-alikes x regex lists x {--unique, --line} x delimiter; "
        "the oracle is macaddress.parse + re.search on the four spellings. non-trivial = at least one word printed and one valid word suppressed "
        "(outside every subnet / excluded / duplicate), distinct by options and counts. aux: parent/child/branch/diff subcommands vs the API (test only). macgrep regexes include, per spelling, one that only that spelling satisfies, in lower and in upper case.")
EXHAUSTIVE = {"quick": False, "thorough": False}
TRUSTED = [
    "Coq 8.16.1 kernel incl. vm_compute",
    "hand-written model coq/Model/Grep.v of the grep loops; tied to the source by the correspondence streams and AST fingerprints only",
    "oracles carried in each case: the standard library's reading of a word as an address (ipaddress.IPv4Interface / IPv6Interface; that IPv4Obj/IPv6Obj read it the same way is C11), the standard "
    "library `ipaddress` for the three renderings, the third-party `macaddress` parser and Python's `re` for MAC words; re.split / str.splitlines for cutting the text",
    "membership is Model/IPRef.contains_ref, proved equal to the source's __contains__ in C12",
    "correspondence driver harness/props/c18.py and the Gallina literal emitter",
    "argparse/dispatch and the parent/child/branch/diff clause: differential test of ccp_script_entry against the API (not a theorem)",
]
ASSUMPTIONS = ["no word parses both as an IPv4 and as an IPv6 address (then the printed rendering does not depend on the iteration order of the subnet set)",
               "regular expressions given to macgrep are valid; re.search depends only on (regex, text)",
               "--exclude-networks has no command-line flag (exclude_networks is always False from the CLI; the model carries the branch but it is not exercised)"]

PRE = ("From Coq Require Import ZArith NArith List Bool. Import ListNotations. "
       "Require Import CCP.Lib.PyStr CCP.Model.IPRef CCP.Model.Grep CCP.Corr.C18. Open Scope Z_scope.")

S = common.strlit


# ------------------------------------------------------------------ running the CLI in-process
def _write(text, suffix=".txt", dir=None):
    """temporary input file; the caller removes it"""
    fd, p = tempfile.mkstemp(prefix="ccpverif_c18_", suffix=suffix, dir=dir)
    with os.fdopen(fd, "w", newline="") as f:
        f.write(text)
    return p


def run_cli(cmd):
    """-> (CliApplication.stdout, process stdout) or None when the command ended with an exception / SystemExit"""
    from ciscoconfparse2.cli_script import ccp_script_entry
    buf = io.StringIO()
    try:
        with contextlib.redirect_stdout(buf), contextlib.redirect_stderr(io.StringIO()):
            app = ccp_script_entry(cmd)
        return list(app.stdout), buf.getvalue()
    except BaseException:
        return None


# ------------------------------------------------------------------ ipgrep
SUBNETS = [["10.1.1.0/24"], ["10.0.0.0/8"], ["10.1.1.0/24", "10.0.0.0/8"], ["10.0.0.0/8", "10.1.1.0/24"], ["10.1.1.0/24", "10.1.1.0/24"],
           ["2001:db8::/64"], ["2001:db8::/64", "10.1.1.0/24"], ["10.1.1.0/24", "2001:db8::/32", "192.168.0.0/16"], ["0.0.0.0/0"], ["::/0"],
           ["10.1.1.1"], ["10.1.1.77/24"], ["10.1.1.128/25", "10.1.1.0/25"], ["2001:db8::1"], ["fe80::/10", "::1/128"], ["172.16.0.0/12"],
           ["10.1.1.0/31"], ["10.1.1.0/24", "foo"], ["300.1.1.1/24"], ["10.1.1.0/255.255.255.0"]]
WORDS4 = ["10.1.1.1", "10.1.1.0/24", "10.1.1.255", "10.1.2.0", "10.0.0.0", "10.255.255.255", "11.0.0.0", "9.255.255.255", "10.1.1.1/32",
          "10.1.1.77/24", "10.1.1.0/25", "10.1.1.128/25", "10.1.0.0/16", "10.0.0.0/7", "0.0.0.0", "255.255.255.255", "0.0.0.0/0", "10.1.1.1/255.255.255.0",
          "192.168.1.1/31", "172.16.1.5", "172.31.255.255", "172.32.0.0", "10.1.1.1/31", "10.1.1.0", "10.1.1.0/32"]
WORDS6 = ["2001:db8::1", "2001:db8::", "2001:db8::ffff:ffff:ffff:ffff", "2001:db8:0:1::", "2001:db8::1/64", "::1", "fe80::1/10", "2001:db8::/64",
          "2001:DB8::1", "2001:db8:0:0:0:0:0:1", "2001:db7:ffff:ffff:ffff:ffff:ffff:ffff", "::", "::/0", "fec0::1", "febf:ffff::1", "::ffff:10.1.1.1", "2001:db8::/32", "2001:db8::1/128"]
BADW = ["foo", "10.1.1.256", "1.2.3", "10.1.1.1/33", "2001:db8::g", "2001:db8::1/129", "10.1.1", "10.1.1.1.1", "1:2:3:4:5:6:7:8:9", "interface", "ip", "address",
        "10.1.1.1x", "x10.1.1.1", "010.1.1.1", "10.1.1.1/", "/24", ":", "::1x", "1.2.3.4%eth0", "-", "",
        # a valid word followed by junk (an unanchored regex alternative would cut the junk off and print a clean address)
        "10.1.1.9/24,", "10.1.1.10/24abc", "10.1.1.11/24/7", "10.1.1.14/24.", "10.1.1.12/2x", "10.1.1.13/255.255.255.0x", "10.1.1.15/24;",
        "2001:db8::5/64x", "2001:db8::6/64/1", "2001:db8::7,", "10.1.1.16,10.1.1.17"]
DELIMS = [None, None, None, ",", r",|\s+", ";", r"\s+|;"]


def _boundary_words(rng, subs):
    out = []
    for s in subs:
        try:
            n = ipaddress.ip_network(s, strict=False)
        except ValueError:
            continue
        lo, hi = int(n.network_address), int(n.broadcast_address)
        mk = ipaddress.IPv4Address if n.version == 4 else ipaddress.IPv6Address
        top = (1 << n.max_prefixlen) - 1
        for a in (lo - 1, lo, lo + 1, hi - 1, hi, hi + 1):
            if 0 <= a <= top:
                out.append(str(mk(a)))
                if rng.random() < 0.4:
                    out.append("%s/%d" % (mk(a), rng.choice([n.prefixlen, n.max_prefixlen, max(0, n.prefixlen - 1), min(n.max_prefixlen, n.prefixlen + 1)])))
    return out


def gen_ip(rng, tier, escalate):
    big = tier == "thorough" or escalate
    cases = []
    for _ in range(3000 * (4 if big else 1)):
        mode = rng.random()
        c = {"subnets": None, "v4": False, "v6": False}
        if mode < 0.8:
            c["subnets"] = rng.choice(SUBNETS)
        elif mode < 0.97:
            c["v4"], c["v6"] = rng.choice([(True, False), (False, True), (True, True)])
        elif mode < 0.985:
            c["subnets"], c["v4"] = rng.choice(SUBNETS), True
        # else: neither -s nor -4/-6 -> error
        pool = WORDS4 + WORDS6 + BADW[:12] + BADW[22:] + _boundary_words(rng, c["subnets"] or ["10.1.1.0/24", "2001:db8::/64"])
        ws = [rng.choice(pool) if rng.random() < 0.9 else rng.choice(BADW) for _ in range(rng.randint(0, 14))]
        # repeat some words so that --unique has something to do
        if ws and rng.random() < 0.6:
            for _ in range(rng.randint(1, 4)):
                ws.insert(rng.randint(0, len(ws)), rng.choice(ws))
        delim = rng.choice(DELIMS)
        seps = [" ", "\n", "  ", "\t", " ", "\n"] + ([","] if delim and "," in delim else []) + ([";"] if delim and ";" in delim else [])
        text = "".join(w + rng.choice(seps) for w in ws)
        if rng.random() < 0.2:
            text = text.rstrip()
        c.update({"text": text, "delim": delim, "unique": rng.random() < 0.35, "line": rng.random() < 0.25, "cidr": rng.random() < 0.3,
                  "nets": rng.random() < 0.25, "exhosts": rng.random() < 0.3})
        if c["line"] and rng.random() < 0.9:
            c["unique"] = False
            if rng.random() < 0.9:
                c["cidr"] = c["nets"] = False
        cases.append(c)
    return cases


def _cmd_ip(c, path):
    a = ["ccp_faked", "ipgrep"]
    if c["subnets"] is not None:
        a += ["-s", ",".join(c["subnets"])]
    if c["v4"]:
        a.append("-4")
    if c["v6"]:
        a.append("-6")
    if c["delim"] is not None:
        a += ["-w", c["delim"]]
    for k, f in (("unique", "--unique"), ("line", "--line"), ("cidr", "--show-cidr"), ("nets", "--show-networks"), ("exhosts", "--exclude-hosts")):
        if c[k]:
            a.append(f)
    a.append(path)
    return " ".join(shlex.quote(x) for x in a)


def _oracle_word(w):
    """what the word denotes as an IPv4 / IPv6 address -- the standard library's reading of it (the reading C11 shows
    IPv4Obj / IPv6Obj to have; a word is not an address when ipaddress rejects it) -- with the renderings of that value"""
    from props import c11
    out = []
    for std, mk in ((c11._std4, ipaddress.IPv4Interface), (c11._std6, ipaddress.IPv6Interface)):
        r = std(w) if w.strip() else None
        if r is None:
            out.append(None)
        else:
            i = mk((r[0], r[1]))
            out.append([r[0], r[1], str(i.ip), i.with_prefixlen, str(i.network)])
    return out


def _oracle_subnet(s):
    """a requested subnet as the standard library reads it: [family, address, prefix length] (None = not a subnet)"""
    from props import c11
    r = c11._std4(s)
    if r is not None:
        return [4, r[0], r[1]]
    r = c11._std6(s)
    if r is not None:
        return [6, r[0], r[1]]
    return None


def run_ip(c):
    path = _write(c["text"])
    try:
        return _run_ip(c, path)
    finally:
        os.unlink(path)


def _run_ip(c, path):
    r = run_cli(_cmd_ip(c, path))
    if r is None:
        out = None
    else:
        out = r[0] if r[1] == "".join(l + "\n" for l in r[0]) else ["__process_stdout_differs__"] + r[0]
    delim = c["delim"] if c["delim"] is not None else r"\s+"
    text = open(path).read()          # universal newlines, as FileType('r') reads it
    if c["line"]:
        inp = [[ln, [_oracle_word(w) for w in re.split(delim, ln)]] for ln in text.splitlines()]
    else:
        inp = [_oracle_word(w) for w in re.split(delim, text)]
    subs = None if c["subnets"] is None else [_oracle_subnet(s) for s in ",".join(c["subnets"]).split(",")]
    return {"out": out, "inp": inp, "subs": subs}


def _wlit(o):
    p4, p6 = o
    if p4 is None and p6 is None:
        return "W0"

    def pl(p):
        return "%s %s %s %s %s" % (common.zlit(p[0]), common.zlit(p[1]), S(p[2]), S(p[3]), S(p[4]))
    if p6 is None:
        return "(W4 %s)" % pl(p4)
    if p4 is None:
        return "(W6 %s)" % pl(p6)
    return "(mk_word (Some (P %s)) (Some (P %s)))" % (pl(p4), pl(p6))


def _outlit(out):
    return "None" if out is None else "(Some %s)" % common.listlit([S(x) for x in out])


def lit_ip(c, o):
    if c["line"]:
        inp = "(In_lines %s)" % common.listlit(["(mk_line %s %s)" % (S(t), common.listlit([_wlit(w) for w in ws])) for t, ws in o["inp"]])
    else:
        inp = "(In_words %s)" % common.listlit([_wlit(w) for w in o["inp"]])
    if o["subs"] is None:
        subs = "None"
    else:
        subs = "(Some %s)" % common.listlit(["SNbad" if s is None else "(SN%d %s %s)" % (s[0], common.zlit(s[1]), common.zlit(s[2])) for s in o["subs"]])
    return "((%s, %s, %s, %s, %s), %s, %s, %s, %s, %s)" % (
        common.blit(c["unique"]), common.blit(c["line"]), common.blit(c["cidr"]), common.blit(c["nets"]), common.blit(c["exhosts"]),
        subs, common.blit(c["v4"]), common.blit(c["v6"]), inp, _outlit(o["out"]))


def nt_ip(c, o):
    if not o["out"]:
        return None
    if c["line"]:
        valid = sum(1 for _, ws in o["inp"] if any(w != [None, None] for w in ws))
    else:
        valid = sum(1 for w in o["inp"] if w != [None, None])
    if valid <= len(o["out"]):
        return None
    return (c["unique"], c["line"], c["cidr"], c["nets"], c["exhosts"], c["v4"], c["v6"], len(c["subnets"] or []), min(len(o["out"]), 6), c["delim"])


def d_ip(c, o):
    return {"command": _cmd_ip(c, "<file>"), "text": c["text"], "printed": o["out"]}


# ------------------------------------------------------------------ macgrep
def _spell(n, size):
    h = "%0*x" % (size * 2, n)
    pairs = [h[i:i + 2] for i in range(0, len(h), 2)]
    quads = [h[i:i + 4] for i in range(0, len(h), 4)]
    return ["-".join(pairs), ":".join(pairs), ".".join(quads), h]


MACS = [0xdeadbeef0001, 0xdeadbeef0002, 0x001122334455, 0xffffffffffff, 0x000000000000, 0x0050569c0001]
EUIS = [0x0011223344556677, 0xdeadbeeffffe0001]
BADM = ["dead.beef", "foo", "de:ad:be:ef:00", "de:ad:be:ef:00:01:02", "dead.beef.000g", "deadbeef000", "00:11:22:33:44:5", "dead-beef-0001", "", "mac", "address",
        "de:ad:be:ef-00-01", "0011.2233.4455.66", "dead.beef.0001.", "10.1.1.1"]
REGEXES = [None, None, ".", "dead", "^dead.beef", "0001,0004", "de:ad", "de-ad", "DEAD", "6677$", "^00", "ff-ff", "nomatch", "beef.0001$", "^dead,^0011", "0001$", "[0-9a-f]{12}$",
           "^....\\.....\\.....$", "e.e", "^$",
           # one regex per spelling that only that spelling can satisfy, in lower and in upper case (case-insensitivity of each of the four searches)
           "adbe", "ADBE", "^DEADBEEF", "EF0001$", "DE-AD-BE", "AD:BE", "DEAD\\.BEEF", "dead\\.beef", "2233", "FFFFFFFFFFFF", "FF:FF", "FFFF\\.FFFF", "9C0001$", "56-9C"]


def gen_mac(rng, tier, escalate):
    big = tier == "thorough" or escalate
    cases = []
    for _ in range(2500 * (4 if big else 1)):
        ws = []
        for _ in range(rng.randint(0, 12)):
            r = rng.random()
            if r < 0.55:
                sp = rng.choice(_spell(rng.choice(MACS), 6))
            elif r < 0.7:
                sp = rng.choice(_spell(rng.choice(EUIS), 8))
            else:
                sp = rng.choice(BADM)
            if rng.random() < 0.3:
                sp = sp.upper()
            ws.append(sp)
        if ws and rng.random() < 0.6:
            for _ in range(rng.randint(1, 3)):
                ws.insert(rng.randint(0, len(ws)), rng.choice(ws))
        delim = rng.choice([None, None, None, ",", r",|\s+", ";"])
        seps = [" ", "\n", "  ", "\t", "\n"] + ([","] if delim and "," in delim else []) + ([";"] if delim and ";" in delim else [])
        text = "".join(w + rng.choice(seps) for w in ws)
        line = rng.random() < 0.25
        cases.append({"text": text, "delim": delim, "regex": rng.choice(REGEXES), "unique": (rng.random() < 0.4) and (not line or rng.random() < 0.1), "line": line})
    return cases


def _cmd_mac(c, path):
    a = ["ccp_faked", "macgrep"]
    if c["regex"] is not None:
        a += ["-r", c["regex"]]
    if c["delim"] is not None:
        a += ["-w", c["delim"]]
    if c["unique"]:
        a.append("-u")
    if c["line"]:
        a.append("-l")
    a.append(path)
    return " ".join(shlex.quote(x) for x in a)


def _oracle_mac(w, regexes):
    import macaddress
    from ciscoconfparse2.ccp_util import MACObj, EUI64Obj
    try:
        t = macaddress.parse(w, macaddress.MAC, macaddress.EUI64)
        size = 6 if isinstance(t, macaddress.MAC) else 8
        (MACObj if size == 6 else EUI64Obj)(w)
    except ValueError:
        return [False, []]
    sp = _spell(int(t), size)
    return [True, [[bool(re.search(rx, s, re.I)) for s in sp] for rx in regexes]]


def run_mac(c):
    path = _write(c["text"])
    try:
        return _run_mac(c, path)
    finally:
        os.unlink(path)


def _run_mac(c, path):
    r = run_cli(_cmd_mac(c, path))
    if r is None:
        out = None
    else:
        out = r[0] if r[1] == "".join(l + "\n" for l in r[0]) else ["__process_stdout_differs__"] + r[0]
    delim = c["delim"] if c["delim"] is not None else r"\s+"
    regexes = (c["regex"] if c["regex"] is not None else ".").split(",")
    text = open(path).read()
    if c["line"]:
        inp = [[ln, [[w] + _oracle_mac(w, regexes) for w in re.split(delim, ln)]] for ln in text.splitlines()]
    else:
        inp = [[w] + _oracle_mac(w, regexes) for w in re.split(delim, text)]
    return {"out": out, "inp": inp}


def _mwlit(w):
    hits = common.listlit(["(%s, %s, %s, %s)" % tuple(common.blit(b) for b in h) for h in w[2]])
    return "(mk_mword %s %s %s)" % (S(w[0]), common.blit(w[1]), hits)


def lit_mac(c, o):
    if c["line"]:
        inp = "(Min_lines %s)" % common.listlit(["(mk_mline %s %s)" % (S(t), common.listlit([_mwlit(w) for w in ws])) for t, ws in o["inp"]])
    else:
        inp = "(Min_words %s)" % common.listlit([_mwlit(w) for w in o["inp"]])
    return "(%s, %s, %s, %s)" % (common.blit(c["unique"]), common.blit(c["line"]), inp, _outlit(o["out"]))


def nt_mac(c, o):
    if not o["out"]:
        return None
    if c["line"]:
        valid = sum(1 for _, ws in o["inp"] if any(w[1] for w in ws))
    else:
        valid = sum(1 for w in o["inp"] if w[1])
    if valid <= len(o["out"]):
        return None
    return (c["unique"], c["line"], c["regex"], c["delim"], min(len(o["out"]), 6))


def d_mac(c, o):
    return {"command": _cmd_mac(c, "<file>"), "text": c["text"], "printed": o["out"]}


STREAMS = [
    Stream("ipgrep", gen_ip, run_ip, lit_ip, PRE, "case_ip", "agree_ip", show="model_ip", nontrivial=nt_ip, describe=d_ip, shard=200,
           rule="ccp ipgrep on generated texts vs model (oracle: ipaddress reading and renderings of each word)"),
    Stream("macgrep", gen_mac, run_mac, lit_mac, PRE, "case_mac", "agree_mac", show="model_mac", nontrivial=nt_mac, describe=d_mac, shard=200,
           rule="ccp macgrep on generated texts vs model (oracle: macaddress.parse, re.search on four spellings)"),
]


# ------------------------------------------------------------------ aux: the other subcommands vs the API (test only)
IOSCFG = ["hostname R1", "!", "interface GigabitEthernet0/1", " description uplink", " ip address 10.1.1.1 255.255.255.0", " ip address 10.2.2.2 255.255.255.0 secondary",
          " no shutdown", "!", "interface GigabitEthernet0/2", " description spare", " shutdown", "!", "interface Loopback0", " ip address 192.0.2.1 255.255.255.255", "!",
          "router ospf 1", " network 10.1.1.0 0.0.0.255 area 0", " passive-interface default", "!", "router bgp 65000", " neighbor 10.1.1.2 remote-as 65001",
          " address-family ipv4", "  neighbor 10.1.1.2 activate", "  network 192.0.2.0", " exit-address-family", "!", "line vty 0 4", " login", "!", "end"]
JUNOSCFG = "interfaces {\n    ge-0/0/0 {\n        description uplink;\n        unit 0 {\n            family inet {\n                address 10.1.1.1/24;\n            }\n        }\n    }\n    ge-0/0/1 {\n        disable;\n    }\n}\nsystem {\n    host-name r1;\n}\n"
TERMS = [["interface"], ["interface", "shutdown"], ["interface", "ip address"], ["interface", "ip address.*secondary"], ["router", "network"],
         ["router bgp", "address-family", "neighbor"], ["router bgp", "address-family", "nomatch"], ["nomatch"], ["interface Giga", "description"],
         ["^interface", "^ ip address"], ["line", "login"], ["router", "address-family", "network"], ["hostname"]]
JTERMS = [["interfaces"], ["interfaces", "ge-"], ["interfaces", "ge-", "description"], ["interfaces", "ge-", "unit", "family", "address"], ["system", "host-name"]]


def _mutate_cfg(rng, lines):
    out = list(lines)
    for _ in range(rng.randint(0, 4)):
        r = rng.random()
        i = rng.randrange(len(out))
        if r < 0.4:
            del out[i]
        elif r < 0.8:
            out.insert(i, rng.choice([" shutdown", " description x%d" % rng.randint(0, 9), "interface Vlan%d" % rng.randint(1, 20), " ip address 10.9.%d.1 255.255.255.0" % rng.randint(0, 9),
                                      " network 10.%d.0.0 0.0.255.255 area 0" % rng.randint(0, 9), "ntp server 10.0.0.%d" % rng.randint(1, 9)]))
        else:
            out[i] = out[i].replace("1", str(rng.randint(2, 9)), 1)
    return out


def aux(rng, tier, escalate):
    common.setup_impl()
    from ciscoconfparse2 import CiscoConfParse, Diff
    n = 150 * (4 if tier == "thorough" or escalate else 1)
    failures = []
    evals = 0
    tmp = tempfile.mkdtemp(prefix="ccpverif_c18_aux_")
    try:
        return _aux(rng, n, failures, evals, tmp, CiscoConfParse, Diff)
    finally:
        shutil.rmtree(tmp, ignore_errors=True)


def _aux(rng, n, failures, evals, tmp, CiscoConfParse, Diff):

    def check(cmd, expected, what, case):
        nonlocal evals
        evals += 1
        r = run_cli(cmd)
        got = None if r is None else r[0]
        if got != expected:
            failures.append({"case": case, "observed": got, "expected": expected, "detail": "%s: CliApplication.stdout differs from the API result; command: %s" % (what, cmd)})
        elif r is not None and expected and not r[1].endswith("".join(l + "\n" for l in expected)):
            failures.append({"case": case, "observed": r[1][-400:], "expected": expected, "detail": "%s: process stdout does not end with the printed lines; command: %s" % (what, cmd)})

    def api(f):
        try:
            return f()
        except BaseException:
            return None

    for t in range(n):
        junos = rng.random() < 0.15
        if junos:
            text, syntax, terms = JUNOSCFG, "junos", rng.choice(JTERMS)
        else:
            text = "\n".join(_mutate_cfg(rng, IOSCFG)) + "\n"
            syntax, terms = rng.choice(["ios", "ios", "nxos", "iosxr", "asa"]), rng.choice(TERMS)
        path = os.path.join(tmp, "cfg_%d.conf" % (t % 4))
        open(path, "w").write(text)
        delim = rng.choice([",", ",", ";", "|"]) if not any("|" in x for x in terms) else rng.choice([",", ";"])
        sflag = [] if (syntax == "ios" and rng.random() < 0.5) else ["-s", syntax]
        dflag = [] if delim == "," else ["-d", delim]
        q = lambda a: " ".join(shlex.quote(x) for x in a)
        case = {"config": text, "syntax": syntax, "terms": terms, "delimiter": delim}
        # parent / child
        cmd = q(["ccp_faked", "parent", "-a", delim.join(terms)] + sflag + dflag + [path])
        check(cmd, api(lambda: [o.text for o in CiscoConfParse(path, syntax=syntax).find_parent_objects(terms)]), "parent", case)
        cmd = q(["ccp_faked", "child", "-a", delim.join(terms)] + sflag + dflag + [path])
        check(cmd, api(lambda: [o.text for o in CiscoConfParse(path, syntax=syntax).find_child_objects(terms)]), "child", case)
        # branch
        if len(terms) > 1:
            cmd = q(["ccp_faked", "branch", "-a", delim.join(terms)] + sflag + dflag + [path])
            check(cmd, api(lambda: [o.text for br in CiscoConfParse(path, syntax=syntax).find_object_branches(terms) for o in br]), "branch", case)

            def orig():
                s = set()
                for br in CiscoConfParse(path, syntax=syntax).find_object_branches(terms):
                    for o in br:
                        s.add(o)
                return [o.text for o in sorted(s)]
        else:
            def orig():
                s = set()
                for p in CiscoConfParse(path, syntax=syntax).find_parent_objects([terms[0]]):
                    s.add(p)
                    for ch in p.all_children:
                        s.add(ch)
                return [o.text for o in sorted(s)]
        if not junos:
            cmd = q(["ccp_faked", "branch", "-o", "original", "-a", delim.join(terms)] + sflag + dflag + [path])
            check(cmd, api(orig), "branch -o original", case)
        # diff
        if not junos:
            new = "\n".join(_mutate_cfg(rng, _mutate_cfg(rng, IOSCFG))) + "\n"
            p2 = os.path.join(tmp, "new_%d.conf" % (t % 4))
            open(p2, "w").write(new)
            for method in ("diff", "rollback", None):
                mflag = [] if method is None else ["-m", method]
                cmd = q(["ccp_faked", "diff"] + mflag + sflag + [path, p2])
                d = api(lambda: Diff(open(path).read(), open(p2).read(), syntax=syntax))
                exp = None if d is None else api(d.get_rollback if method == "rollback" else d.get_diff)
                check(cmd, exp, "diff -m %s" % method, dict(case, new_config=new))
    # option defaults
    from ciscoconfparse2.cli_script import ArgParser
    import sys
    old = sys.argv
    try:
        for argv, want in ((["ipgrep", "-4", os.devnull], {"word_delimiter": r"\s+", "unique": False, "line": False, "show_cidr": False, "show_networks": False, "exclude_hosts": False, "subnets": None}),
                           (["macgrep", os.devnull], {"word_delimiter": r"\s+", "unique": False, "line": False, "regex": "."}),
                           (["parent", "-a", "x", os.devnull], {"syntax": "ios", "delimiter": ",", "output": "raw_text", "all_children": False}),
                           (["diff", os.devnull, os.devnull], {"syntax": "ios", "method": "diff"})):
            evals += 1
            sys.argv = ["ccp"] + argv
            ns = vars(ArgParser().parse())
            bad = {k: ns.get(k) for k, v in want.items() if ns.get(k, "<missing>") != v}
            for v in ns.values():
                if hasattr(v, "close") and v not in (sys.stdin,):
                    v.close()
            if bad:
                failures.append({"case": {"argv": argv}, "observed": bad, "expected": want, "detail": "argparse default differs"})
    finally:
        sys.argv = old
    return {"evaluations": evals, "failures": failures,
            "note": "parent/child/branch/diff subcommands and argparse defaults: ccp_script_entry vs the API on mutated configs (test, not proof)"}


TECHNIQUE = ("Coq proofs (unbounded) about a hand-written executable model of the ipgrep/macgrep loops with oracle answers for address parsing and regex search; "
             "vm_compute correspondence of the real CLI run in-process; differential test for the other subcommands")
LEVEL_TEXT = ("Machine-checked theorems (Coq 8.16.1, closed under the global context) for ALL word lists, subnet lists and oracle answers: the word-mode output is the "
              "order-preserving filter of the words that parse and lie in some requested subnet (and are not excluded), rendered as requested, once per occurrence; "
              "with --unique it is that list with later duplicates removed; line mode keeps exactly the lines with a matching non-excluded word and no excluded one; "
              "the same for macgrep.")
LEVEL_NOTE = ("Trusted: Coq kernel + vm_compute; the hand model of the loops (tied to /repo by the correspondence stream and fingerprint escalation); oracles for address parsing "
              "(C11), rendering (ipaddress), MAC parsing (macaddress) and re; C12 for membership.  The parent/child/branch/diff clause and the argparse defaults are decided by "
              "differential test against the API only (not proved).")
