"""C13 — address objects obey ordering, equality, hashing and arithmetic laws."""
import ipaddress

from runner import Stream
import common

ID = "C13"
LEVEL = "proof"
PROPS = "Props/C13.vo"
USES_TRANSLATOR = True      # coq/gen/GenIP.v (harness/translate.py) is part of this property's model
MODEL_TARGETS = ["Corr/C13.vo"]
OBLIGATION_FILES = ["Props/C13.v", "gen/GenOK13.v"]
_M = ["__eq__", "__ne__", "__lt__", "__gt__", "__hash__", "__add__", "__sub__", "prefixlen", "masklen", "network_offset"]
ANCHORS = [("ciscoconfparse2/ccp_util.py", "%s.%s" % (c, m)) for c in ("IPv4Obj", "IPv6Obj") for m in _M]
RULE = ("cmp: all ordered pairs from a boundary-rich pool per family (addresses {0,1,2,network boundaries,max-1,max} x prefix lengths "
        "{0,1,8,..,W-2,W-1,W}, objects built through different spellings) -> <,>,==,!=, hash equality vs lt_ref/gt_ref/eq_ref; "
        "arith: (object, integer) with results at -1,0,1,max-1,max,max+1 and random; setters: every prefix length through each of the "
        "setter names, offsets at -1,0,1,hostmask-1,hostmask,hostmask+1; sort: sorted() of random lists vs the stable insertion sort by lt_ref. "
        "non-trivial: cmp = same network or same address (tie-break levels of the key); arith = result within 1 of a bound; "
        "setters = argument within 1 of a bound; distinct by the listed key. In the arith and setters streams the object is hashed before the change and the result is compared (==, !=, hash) with an independently built object of the same (address, prefix length).")
EXHAUSTIVE = {"quick": False, "thorough": False}
TRUSTED = [
    "Coq 8.16.1 kernel incl. vm_compute (no native_compute)",
    "harness/translate.py (Python ast -> Gallina) with typing assumptions: operands are non-empty objects of one family, val/arg is an int; attribute map as_decimal->addr, as_decimal_network->netw, prefixlen->plen; IPvXNetwork(f'{ip}/{arg}', strict=False) modelled as mk_net (rejects lengths outside 0..W)",
    "hashing: str() and hash() are deterministic functions of (address, prefix length) within a process (checked on every cmp case)",
    "sorted() is a stable sort that uses only __lt__ (CPython guarantee); modelled as stable insertion sort",
    "correspondence driver harness/props/c13.py",
]
ASSUMPTIONS = ["operands are non-empty address objects of the same family; integers are Python ints"]
TECHNIQUE = "Coq proof (unbounded, over Z) about Gallina terms regenerated from the comparison/arithmetic/setter methods by an ast translator; vm_compute correspondence on boundary pools"
LEVEL_TEXT = ("Machine-checked theorems for ALL well-formed objects of both families: < and > are the lexicographic order on (network, prefix length, address) "
              "(irreflexive, asymmetric, transitive, trichotomous with ==), == iff same address and prefix length, hash compatibility, longest-match ordering, "
              "add/sub round trip with preserved prefix length, add/sub raise exactly when the address space is left, prefix-length setters keep the address, "
              "network_offset sets network+k for 0<=k<=hostmask and rejects everything else. Theorems are about terms re-translated from /repo on every run (gen/GenOK13.v re-proved).")
LEVEL_NOTE = ("Trusted: Coq kernel + vm_compute; translator and its attribute map/typing assumptions; correspondence driver. "
              "__hash__ itself (Python string hashing) is not modelled: the theorem says any function of (address, prefix length) agrees on equal objects, and the tie checks hash() on every compared pair. "
              "__ne__ is translated too and proved to be the negation of __eq__ (ne_is_not_eq).")

SETTERS4 = ["prefixlen", "masklen", "prefixlength", "masklength"]
SETTERS6 = ["prefixlen", "masklen", "masklength"]


def _pool(W, rng, n_extra):
    mx = (1 << W) - 1
    plens = sorted({0, 1, 2, 8, W // 2, W - 8, W - 2, W - 1, W})
    objs = set()
    for p in plens:
        size = 1 << (W - p)
        base = ((rng.getrandbits(W) >> (W - p)) << (W - p)) if p else 0
        for a in (0, 1, 2, base, base + 1, base + size - 1, base + size // 2, mx - 1, mx, mx - size + 1):
            if 0 <= a <= mx:
                objs.add((a, p))
    objs = sorted(objs)
    rng.shuffle(objs)
    objs = objs[:60 + n_extra]
    return objs


def gen_cmp(rng, tier, escalate):
    cases = []
    big = tier == "thorough" or escalate
    for W in (32, 128):
        pool = _pool(W, rng, 30 if big else 0)
        for i, (a, pa) in enumerate(pool):
            for j, (b, pb) in enumerate(pool):
                cases.append({"W": W, "a": a, "pa": pa, "b": b, "pb": pb, "spell": (i + j) % 3})
    return cases


def _mk(W, a, p, spell=0):
    from ciscoconfparse2.ccp_util import IPv4Obj, IPv6Obj
    if W == 32:
        ip = ipaddress.IPv4Address(a)
        if spell == 1:
            return IPv4Obj("%s %s" % (ip, ipaddress.IPv4Network((0, p)).netmask))
        if spell == 2:
            o = IPv4Obj(a)
            o.prefixlen = p
            return o
        return IPv4Obj("%s/%d" % (ip, p))
    ip = ipaddress.IPv6Address(a)
    if spell == 1:
        return IPv6Obj("%s/%d" % (ip.exploded.upper(), p))
    if spell == 2:
        o = IPv6Obj(a)
        o.prefixlen = p
        return o
    return IPv6Obj("%s/%d" % (ip, p))


def run_cmp(c):
    x = _mk(c["W"], c["a"], c["pa"], c["spell"])
    y = _mk(c["W"], c["b"], c["pb"], 0)
    try:
        f = (1 if x < y else 0) + (2 if x > y else 0) + (4 if x == y else 0) + (8 if x != y else 0) + (16 if hash(x) == hash(y) else 0)
    except BaseException:
        f = 32
    return f


def lit_cmp(c, o):
    z = common.zlit
    return "(%d, %s, %d, %s, %d, %d)" % (c["W"], z(c["a"]), c["pa"], z(c["b"]), c["pb"], o)


def nt_cmp(c, o):
    W = c["W"]
    na = (c["a"] >> (W - c["pa"])) << (W - c["pa"]) if c["pa"] else 0
    nb = (c["b"] >> (W - c["pb"])) << (W - c["pb"]) if c["pb"] else 0
    if na == nb or c["a"] == c["b"]:
        return (W, c["a"], c["pa"], c["b"], c["pb"])
    return None


def _fmt(W, a, p):
    f = ipaddress.IPv4Address if W == 32 else ipaddress.IPv6Address
    return "%s/%d" % (f(a), p)


def gen_arith(rng, tier, escalate):
    cases = []
    n = 400 * (4 if (tier == "thorough" or escalate) else 1)
    for W in (32, 128):
        mx = (1 << W) - 1
        for (a, p) in _pool(W, rng, 0)[:40]:
            for target in (-2, -1, 0, 1, 2, mx - 2, mx - 1, mx, mx + 1, mx + 2):
                cases.append({"W": W, "a": a, "p": p, "n": target - a, "op": 0})
                cases.append({"W": W, "a": a, "p": p, "n": a - target, "op": 1})
        for _ in range(n):
            a = rng.getrandbits(W)
            p = rng.randint(0, W)
            nn = rng.choice([rng.getrandbits(W) - a, rng.randint(-5, 5), -rng.getrandbits(W // 2), rng.getrandbits(W // 2), rng.getrandbits(W + 2) - (1 << W)])
            cases.append({"W": W, "a": a, "p": p, "n": nn, "op": rng.randint(0, 1)})
    return cases


def run_arith(c):
    x = _mk(c["W"], c["a"], c["p"])
    try:
        _ = (hash(x), x == x, int(x.as_decimal), int(x.as_decimal_network))
        r = (x + c["n"]) if c["op"] == 0 else (x - c["n"])
        o = [int(r.as_decimal), int(r.prefixlen)]
    except BaseException:
        return None
    y = _mk(c["W"], o[0], o[1])
    if not (r == y and hash(r) == hash(y) and not (r != y)):
        return [-7, -7]               # eq/hash broken on the result of the arithmetic
    return o


def lit_opt(o):
    return "None" if o is None else "(Some (%s, %s))" % (common.zlit(o[0]), common.zlit(o[1]))


def lit_arith(c, o):
    z = common.zlit
    return "(%d, %s, %d, %s, %d, %s)" % (c["W"], z(c["a"]), c["p"], z(c["n"]), c["op"], lit_opt(o))


def nt_arith(c, o):
    W = c["W"]
    t = c["a"] + c["n"] if c["op"] == 0 else c["a"] - c["n"]
    if min(abs(t), abs(t - ((1 << W) - 1))) <= 2:
        return (W, c["p"], c["op"], t - ((1 << W) - 1) if t > 5 else t)
    return None


def gen_set(rng, tier, escalate):
    cases = []
    for W in (32, 128):
        pool = _pool(W, rng, 0)[:(30 if (tier == "thorough" or escalate) else 12)]
        names = SETTERS4 if W == 32 else SETTERS6
        for idx, (a, p) in enumerate(pool):
            for arg in list(range(-2, W + 3)) if idx < 4 else [-1, 0, 1, W - 1, W, W + 1, rng.randint(0, W)]:
                cases.append({"W": W, "a": a, "p": p, "kind": 0, "arg": arg, "name": names[(idx + arg) % len(names)]})
            hm = (1 << (W - p)) - 1
            for arg in {-2, -1, 0, 1, 2, hm - 1, hm, hm + 1, hm + 2, rng.randint(0, hm), -rng.randint(1, 1 << 20)}:
                cases.append({"W": W, "a": a, "p": p, "kind": 1, "arg": arg, "name": "network_offset"})
    return cases


def run_set(c):
    x = _mk(c["W"], c["a"], c["p"])
    # every observer is used once before the change: a value cached by any of them must not survive it
    h0 = (hash(x), x == x, x < x, x > x, int(x.as_decimal), int(x.as_decimal_network), int(x.prefixlen), int(x), str(x.ip), sorted([x, x])[0] is x)
    try:
        setattr(x, c["name"], c["arg"])
        r = [int(x.as_decimal), int(x.prefixlen), int(x.as_decimal_network)]
    except BaseException:
        return None
    # the changed object against an independently built object of the same (address, prefix length)
    y = _mk(c["W"], r[0], r[1])
    if not (x == y and y == x and hash(x) == hash(y) and not (x != y)):
        return [-7, -7, -7]           # never agrees with the model: eq/hash broken after a setter
    return r


def lit_set(c, o):
    z = common.zlit
    ol = "None" if o is None else "(Some (%s, %s, %s))" % (z(o[0]), z(o[1]), z(o[2]))
    return "(%d, %s, %d, %d, %s, %s)" % (c["W"], z(c["a"]), c["p"], c["kind"], z(c["arg"]), ol)


def nt_set(c, o):
    W = c["W"]
    if c["kind"] == 0:
        return (W, 0, c["name"], c["arg"]) if min(abs(c["arg"]), abs(c["arg"] - W)) <= 1 else None
    hm = (1 << (W - c["p"])) - 1
    return (W, 1, c["p"], c["arg"] - hm if c["arg"] > 3 else c["arg"]) if min(abs(c["arg"]), abs(c["arg"] - hm)) <= 2 else None


def gen_sort(rng, tier, escalate):
    cases = []
    n = 150 * (4 if (tier == "thorough" or escalate) else 1)
    for W in (32, 128):
        pool = _pool(W, rng, 0)
        for _ in range(n):
            k = rng.randint(0, 9)
            cases.append({"W": W, "objs": [list(rng.choice(pool)) for _ in range(k)]})
    return cases


def run_sort(c):
    objs = [_mk(c["W"], a, p) for a, p in c["objs"]]
    try:
        return [[int(o.as_decimal), int(o.prefixlen)] for o in sorted(objs)]
    except BaseException:
        return None


def lit_sort(c, o):
    z = common.zlit
    f = lambda l: "[" + "; ".join("(%s, %s)" % (z(a), z(p)) for a, p in l) + "]"
    return "(%d, %s, %s)" % (c["W"], f(c["objs"]), f(o if o is not None else [[-1, -1]]))


PRE = "From Coq Require Import ZArith List. Import ListNotations. Require Import CCP.Corr.C13. Open Scope Z_scope."
STREAMS = [
    Stream("cmp", gen_cmp, run_cmp, lit_cmp, PRE, "Z * Z * Z * Z * Z * Z", "agree13cmp", show="model13cmp", nontrivial=nt_cmp,
           describe=lambda c, o: {"x": _fmt(c["W"], c["a"], c["pa"]), "y": _fmt(c["W"], c["b"], c["pb"]), "flags lt+2gt+4eq+8ne+16hasheq": o}),
    Stream("arith", gen_arith, run_arith, lit_arith, PRE, "Z * Z * Z * Z * Z * option (Z * Z)", "agree13arith", show="model13arith", nontrivial=nt_arith,
           describe=lambda c, o: {"obj": _fmt(c["W"], c["a"], c["p"]), "op": "+-"[c["op"]], "n": c["n"], "impl": o}),
    Stream("setters", gen_set, run_set, lit_set, PRE, "Z * Z * Z * Z * Z * option (Z * Z * Z)", "agree13set", show="model13set", nontrivial=nt_set,
           describe=lambda c, o: {"obj": _fmt(c["W"], c["a"], c["p"]), "setter": c["name"], "arg": c["arg"], "impl": o}),
    Stream("sorted", gen_sort, run_sort, lit_sort, PRE, "Z * list (Z * Z) * list (Z * Z)", "agree13sort", show="model13sort",
           nontrivial=lambda c, o: (c["W"], tuple(map(tuple, c["objs"]))) if len(c["objs"]) >= 3 else None,
           describe=lambda c, o: {"objs": [_fmt(c["W"], a, p) for a, p in c["objs"]], "impl_sorted": o}),
]
