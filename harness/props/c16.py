"""C16 — MAC and EUI-64 objects: every rendering denotes the same address."""
from runner import Stream
import common

ID = "C16"
LEVEL = "proof"
PROPS = "Props/C16.vo"
MODEL_TARGETS = ["Corr/C16.vo"]
OBLIGATION_FILES = ["Props/C16.v"]
ANCHORS = [("ciscoconfparse2/ccp_util.py", "MACObj"), ("ciscoconfparse2/ccp_util.py", "EUI64Obj"),
           ("ciscoconfparse2/cli_script.py", "MACEUISearch")]
RULE = ("stream obj: boundary-biased 48/64-bit values (0, 1, all-ones, top bit, every single-nibble a/f/9 pattern, digit-only and letter-only "
        "patterns, random) x 4 spellings (dash, colon, Cisco dotted, bare hex) x {lower, upper, mixed per digit} case, plus the COMPLETE one-edit "
        "neighbourhood (replace / insert / delete at every position, 18-character alphabet incl. 'x', 'g', separators, blanks, newline, full-width and "
        "Arabic-Indic digits) of one base string per spelling, plus strings of the other width and of the other macaddress classes; the object's "
        "renderings and `Obj(rendering) == Obj(s)` flags (or 'constructor raised') are compared with Model/Mac.v by vm_compute. "
        "stream eq: `Obj(s1) == Obj(s2)` for same value / different spelling and case, values one bit apart (every bit), off by one, and invalid operands. "
        "stream search: MACEUISearch(word).mac_retval kind and Cisco rendering. non-trivial = accepted input that is not already the lower-case dash form "
        "(obj), a pair with different spellings or values one bit apart (eq), a word accepted as MAC/EUI-64 or a one-edit near miss (search); "
        "distinct by (width, spelling, case mode, value class) / (width, edit kind, position, character).")
EXHAUSTIVE = {"quick": False, "thorough": False}
TRUSTED = [
    "Coq 8.16.1 kernel incl. vm_compute (no native_compute)",
    "hand-written Gallina model coq/Model/Mac.v of MACObj/EUI64Obj and of macaddress.HWAddress.__init__(str)/_parse/__str__ "
    "(third-party package; its candidate-narrowing loop is modelled declaratively as `some format of that length matches`), tied to the "
    "running code by this correspondence only",
    "harness/gen_c16.py: formats / sizes / _HEX_DIGITS read from the installed macaddress package on every run",
    "correspondence driver harness/props/c16.py and the Gallina literal emitter",
]
ASSUMPTIONS = ["constructor arguments are Python str (int / bytes / object arguments of macaddress are outside the property)",
               "str.lower and str.split behave on the ASCII output of macaddress.__str__ as PyStr.lower / split_on"]

T48 = ["xx-xx-xx-xx-xx-xx", "xx:xx:xx:xx:xx:xx", "xxxx.xxxx.xxxx", "xxxxxxxxxxxx"]
T64 = ["xx-xx-xx-xx-xx-xx-xx-xx", "xx:xx:xx:xx:xx:xx:xx:xx", "xxxx.xxxx.xxxx.xxxx", "xxxxxxxxxxxxxxxx"]
TNAME = ["dash", "colon", "cisco", "bare"]
EDIT_ALPHABET = ["0", "9", "a", "f", "A", "F", "g", "G", "x", "X", "-", ":", ".", " ", "\n", "０", "٣", "ａ"]


def _tpls(W):
    return T48 if W == 48 else T64


def _spell(W, v, ti, mode, rng):
    """independent renderer: value -> spelling in template ti with case mode lower/upper/mixed"""
    nd = W // 4
    digs = "%0*x" % (nd, v)
    if mode == "upper":
        digs = digs.upper()
    elif mode == "mixed":
        digs = "".join(c.upper() if rng.random() < 0.5 else c for c in digs)
    out, k = [], 0
    for ch in _tpls(W)[ti]:
        if ch == "x":
            out.append(digs[k])
            k += 1
        else:
            out.append(ch)
    return "".join(out)


def _values(W, rng, nrand):
    """(value, class) boundary-biased"""
    nd = W // 4
    top = (1 << W) - 1
    vals = [(0, "zero"), (1, "one"), (top, "ones"), (top - 1, "ones-1"), (1 << (W - 1), "topbit"), ((1 << (W - 1)) - 1, "topbit-1"),
            (int("0123456789abcdef"[:nd] if nd == 16 else "0123456789ab", 16), "digits"), (int("abcdef" * 3, 16) & top, "letters"),
            (int("0a0b0c0d0e0f0a0b"[:nd], 16), "0a0b"), (int("a0b0c0d0e0f0a0b0"[:nd], 16), "a0b0"),
            (int("5" * nd, 16), "0101"), (int("a" * nd, 16), "1010")]
    for i in range(nd):
        for d in (0xA, 0xF, 0x9):
            vals.append((d << (4 * i), "nibble"))
    for i in range(nrand):
        v = rng.getrandbits(W)
        if i % 3 == 0:       # sparse: most nibbles zero
            v &= rng.getrandbits(W) & rng.getrandbits(W)
        vals.append((v, "random"))
    return vals


def _edits(s):
    """complete one-edit neighbourhood over EDIT_ALPHABET: (string, kind, position, char)"""
    out = []
    for i in range(len(s)):
        out.append((s[:i] + s[i + 1:], "del", i, ""))
        for a in EDIT_ALPHABET:
            if a != s[i]:
                out.append((s[:i] + a + s[i + 1:], "rep", i, a))
    for i in range(len(s) + 1):
        for a in EDIT_ALPHABET:
            out.append((s[:i] + a + s[i:], "ins", i, a))
    return out


OTHER = ["", "x", "0", "00", "00-11-22", "00:11:22", "001122", "00-11-22-33", "0011.2233", "00-11-22-33-44", "0011223344",
         "0.1.2.3.4.5.6.7.8.9.a.b.c.d.e", "00-11-22.3.4.5.6.7.8.9.a.b", "0123456789abcde", "xx-xx-xx-xx-xx-xx", "xxxx.xxxx.xxxx",
         "xxxxxxxxxxxx", "XXXX.XXXX.XXXX", "0011.2233.4455.", ".0011.2233.4455", "0011..2233.4455", "0011-2233-4455", "0011:2233:4455",
         "00.11.22.33.44.55", "00-11-22-33-44:55", "00:11:22:33:44-55", "0011.2233:4455", "00 11 22 33 44 55", "0x0011223344",
         "0011.2233.4455\n", " 0011.2233.4455", "0011.2233.4455 ", "0011.2233.445g", "hello", "deadbeefcafe", "DEADBEEFCAFE", "dead.beef.cafe",
         "de:ad:be:ef:ca:fe", "DE-AD-BE-EF-CA-FE", "dead.beef.cafe.f00d", "deadbeefcafef00d", "de:ad:be:ef:ca:fe:f0:0d", "DE-AD-BE-EF-CA-FE-F0-0D",
         "xxxx.xxxx.xxxx.xxxx", "xx:xx:xx:xx:xx:xx:xx:xx"]


def gen_obj(rng, tier, escalate):
    big = tier == "thorough" or escalate
    cases = []
    for W in (48, 64):
        for v, cl in _values(W, rng, 600 if big else 120):
            for ti in range(4):
                for mode in ("lower", "upper", "mixed"):
                    cases.append({"W": W, "s": _spell(W, v, ti, mode, rng), "kind": "valid", "t": TNAME[ti], "mode": mode, "cl": cl})
        # complete one-edit neighbourhood of one (thorough: three) base string(s) per spelling
        bases = [int("0a1b2c3d4e5f6071"[: W // 4], 16)] + ([rng.getrandbits(W), (1 << W) - 1] if big else [])
        for b in bases:
            for ti in range(4):
                base = _spell(W, b, ti, "mixed" if b != (1 << W) - 1 else "upper", rng)
                for s, kind, pos, ch in _edits(base):
                    cases.append({"W": W, "s": s, "kind": kind, "t": TNAME[ti], "pos": pos, "ch": ch})
        for s in OTHER:
            cases.append({"W": W, "s": s, "kind": "other", "t": "-", "pos": 0, "ch": s})
        # spellings of the other width
        oW = 112 - W
        for _ in range(20):
            v = rng.getrandbits(oW)
            for ti in range(4):
                cases.append({"W": W, "s": _spell(oW, v, ti, "mixed", rng), "kind": "otherwidth", "t": TNAME[ti], "pos": 0, "ch": ""})
    return cases


def _cls(W):
    from ciscoconfparse2.ccp_util import MACObj, EUI64Obj
    return MACObj if W == 48 else EUI64Obj


def run_obj(case):
    cls = _cls(case["W"])
    try:
        o = cls(case["s"])
    except Exception:
        return None
    try:
        rs = [o.cisco, o.dash, o.colon] + ([o.unix] if case["W"] == 48 else [])
    except Exception as e:
        return {"r": [], "f": [], "err": "rendering raised %s" % type(e).__name__}
    if not all(isinstance(r, str) for r in rs):
        return {"r": [], "f": [], "err": "rendering is not a str"}
    flags = []
    for r in rs:
        try:
            flags.append(bool(cls(r) == o))
        except Exception:
            flags.append(False)
    return {"r": rs, "f": flags}


def lit_obj(c, o):
    if o is None:
        return "(%d, %s, None)" % (c["W"], common.strlit(c["s"]))
    return "(%d, %s, Some (%s, %s))" % (c["W"], common.strlit(c["s"]), common.listlit([common.strlit(r) for r in o["r"]]),
                                        common.listlit([common.blit(b) for b in o["f"]]))


def nontrivial_obj(c, o):
    if c["kind"] == "valid":
        if o is None or (c["t"] == "dash" and c["mode"] == "lower"):
            return None
        return (c["W"], c["t"], c["mode"], c["cl"])
    if c["kind"] in ("rep", "ins", "del"):
        return (c["W"], c["t"], c["kind"], c["pos"], c["ch"])
    return (c["W"], c["kind"], c["s"])


def describe_obj(c, o):
    d = {"class": "MACObj" if c["W"] == 48 else "EUI64Obj", "input": c["s"], "generated_as": c["kind"]}
    if o is None:
        d["impl"] = "constructor raised"
    else:
        d["impl_renderings(cisco,dash,colon[,unix])"] = o["r"]
        d["impl_Obj(rendering)==Obj(input)"] = o["f"]
        if o.get("err"):
            d["impl_error"] = o["err"]
    return d


# ---------------------------------------------------------------------------------------------- eq
def gen_eq(rng, tier, escalate):
    big = tier == "thorough" or escalate
    cases = []
    modes = ("lower", "upper", "mixed")
    for W in (48, 64):
        vals = [v for v, _ in _values(W, rng, 40 if big else 8)]
        for v in vals[:12] + vals[-(40 if big else 8):]:
            # same value, every pair of spellings
            for t1 in range(4):
                for t2 in range(4):
                    cases.append({"W": W, "s1": _spell(W, v, t1, rng.choice(modes), rng), "s2": _spell(W, v, t2, rng.choice(modes), rng),
                                  "rel": "same", "t": (TNAME[t1], TNAME[t2])})
            # one bit apart, every bit
            for k in range(W):
                t1, t2 = rng.randrange(4), rng.randrange(4)
                cases.append({"W": W, "s1": _spell(W, v, t1, rng.choice(modes), rng), "s2": _spell(W, v ^ (1 << k), t2, rng.choice(modes), rng),
                              "rel": "bit%d" % k, "t": (TNAME[t1], TNAME[t2])})
            w = (v + 1) % (1 << W)
            cases.append({"W": W, "s1": _spell(W, v, 2, "lower", rng), "s2": _spell(W, w, 2, "upper", rng), "rel": "succ", "t": ("cisco", "cisco")})
        # letter-case only differences / digit vs letter confusions
        v = int("abcdefabcdefabcd"[: W // 4], 16)
        for t1 in range(4):
            cases.append({"W": W, "s1": _spell(W, v, t1, "lower", rng), "s2": _spell(W, v, t1, "upper", rng), "rel": "case", "t": (TNAME[t1], TNAME[t1])})
        for s2 in ("", "hello", _spell(112 - W, 5, 0, "lower", rng)):
            cases.append({"W": W, "s1": _spell(W, v, 0, "lower", rng), "s2": s2, "rel": "invalid", "t": ("dash", "-")})
    return cases


def run_eq(case):
    cls = _cls(case["W"])
    try:
        return 1 if (cls(case["s1"]) == cls(case["s2"])) else 0
    except Exception:
        return 2


def lit_eq(c, o):
    return "(%d, %s, %s, %d)" % (c["W"], common.strlit(c["s1"]), common.strlit(c["s2"]), o)


def nontrivial_eq(c, o):
    if c["rel"] == "invalid" or (c["rel"] == "same" and c["t"][0] == c["t"][1]):
        return None
    return (c["W"], c["rel"], tuple(c["t"]))


def describe_eq(c, o):
    return {"class": "MACObj" if c["W"] == 48 else "EUI64Obj", "s1": c["s1"], "s2": c["s2"], "relation_generated": c["rel"],
            "impl_Obj(s1)==Obj(s2)": {0: False, 1: True, 2: "raised"}[o]}


# ---------------------------------------------------------------------------------------------- search
def gen_search(rng, tier, escalate):
    big = tier == "thorough" or escalate
    cases = []
    for W in (48, 64):
        for v, cl in _values(W, rng, 60 if big else 15)[:12] + _values(W, rng, 60 if big else 15)[-(60 if big else 15):]:
            for ti in range(4):
                s = _spell(W, v, ti, rng.choice(("lower", "upper", "mixed")), rng)
                cases.append({"w": s, "kind": "valid%d" % W, "t": TNAME[ti]})
                # a few near misses of it
                i = rng.randrange(len(s))
                cases.append({"w": s[:i] + s[i + 1:], "kind": "del", "t": TNAME[ti]})
                cases.append({"w": s[:i] + rng.choice(EDIT_ALPHABET) + s[i:], "kind": "ins", "t": TNAME[ti]})
                cases.append({"w": s[:i] + rng.choice(EDIT_ALPHABET) + s[i + 1:], "kind": "rep", "t": TNAME[ti]})
    for s in OTHER:
        if s:
            cases.append({"w": s, "kind": "other", "t": s})
    return cases


def run_search(case):
    from ciscoconfparse2.cli_script import MACEUISearch
    from ciscoconfparse2.ccp_util import MACObj, EUI64Obj
    x = MACEUISearch(case["w"])
    r = x.mac_retval
    if r is None:
        return [0, ""]
    if isinstance(r, MACObj):
        return [48, r.cisco]
    if isinstance(r, EUI64Obj):
        return [64, r.cisco]
    return [1, ""]


def lit_search(c, o):
    return "(%s, %d, %s)" % (common.strlit(c["w"]), o[0], common.strlit(o[1]))


def nontrivial_search(c, o):
    if c["kind"] == "other" and o[0] == 0:
        return None
    return (c["kind"], c["t"], o[0], len(c["w"]))


def describe_search(c, o):
    return {"word": c["w"], "impl_mac_retval": {0: None, 48: "MACObj", 64: "EUI64Obj"}.get(o[0], "?"), "impl_cisco": o[1]}


PRE = ("From Coq Require Import NArith List Bool. Import ListNotations. "
       "Require Import CCP.Lib.PyStr CCP.Lib.Res CCP.Model.Mac CCP.Corr.C16. Open Scope N_scope.")
STREAMS = [
    Stream("obj", gen_obj, run_obj, lit_obj, preamble=PRE, ctype="N * str * obs16", agree="agree16", show="model16",
           nontrivial=nontrivial_obj, describe=describe_obj, shard=250, rule="values x spellings x case + one-edit neighbourhoods"),
    Stream("eq", gen_eq, run_eq, lit_eq, preamble=PRE, ctype="N * str * str * N", agree="agree16eq", show="model16eq",
           nontrivial=nontrivial_eq, describe=describe_eq, shard=300, rule="same value / one bit apart / invalid operands"),
    Stream("search", gen_search, run_search, lit_search, preamble=PRE, ctype="str * N * str", agree="agree16s", show="model16s",
           nontrivial=nontrivial_search, describe=describe_search, shard=300, rule="MACEUISearch classification of words"),
]

TECHNIQUE = ("Coq proof (unbounded over all 2^48 / 2^64 values and all strings) about a hand-written Gallina model of MACObj/EUI64Obj and the macaddress "
             "parser/printer they wrap; format tables regenerated from the installed package; vm_compute correspondence against the real objects")
LEVEL_TEXT = ("Machine-checked theorems (Coq 8.16.1, closed under the global context) about Model/Mac.v for ALL values below 2^48 (2^64) and ALL strings: "
              "each rendering is the lower-case hex digits of the value in the dash / colon / Cisco-dotted grouping and never raises; each rendering re-parses "
              "to the same value; every spelling (4 formats x arbitrary per-digit letter case) parses to its value; a string is accepted only if it is such a "
              "spelling of the returned value (so wrong lengths, separators and non-hex characters are rejected); == is true exactly for equal values. "
              "The model is tied to the running MACObj / EUI64Obj / MACEUISearch by a vm_compute correspondence over boundary values x all spellings and the "
              "complete one-edit neighbourhood of eight base strings.")
LEVEL_NOTE = ("Trusted: Coq kernel + vm_compute; the hand-written model (Model/Mac.v) of ciscoconfparse2's MACObj/EUI64Obj and of the third-party macaddress "
              "parser/printer, whose sorted-candidate narrowing loop is modelled declaratively (`some format of this length matches character by character`) "
              "and is pinned only by the correspondence run; the format tables are re-read from the installed package on every run. Constructor arguments "
              "other than str are outside the property.")
