"""C01 — parsing an indentation-style config is total and lossless."""
import itertools

from runner import Stream
import common
import parsegen

ID = "C01"
LEVEL = "proof"
PROPS = "Props/C01.vo"
MODEL_TARGETS = ["Corr/C01.vo"]
OBLIGATION_FILES = ["Props/C01.v"]
ANCHORS = [("ciscoconfparse2/ciscoconfparse2.py", "ConfigList." + m) for m in
           ("bootstrap", "_banner_mark_regex", "_ciscoios_macro_mark_children", "_build_banner_re_ios", "_reparent")] + \
          [("ciscoconfparse2/ciscoconfparse2.py", "cfgobj_from_text"), ("ciscoconfparse2/ciscoconfparse2.py", "CiscoConfParse.get_text"),
           ("ciscoconfparse2/ciscoconfparse2.py", "CiscoConfParse.commit"), ("ciscoconfparse2/ciscoconfparse2.py", "ConfigList.commit")]
RULE = ("exhaustive: every sequence of length <= 3 (quick) / 4 (thorough) over a 14-symbol line alphabet (commands, blank, whitespace-only, comments, banner start with/without "
        "terminator on the line, terminator lines, macro start, '@') x ignore_blank_lines x {ios,nxos}; random: lines drawn from a 38-line pool (tabs, NBSP, non-ASCII, braces, "
        "regex metacharacters, unterminated banners/macros, nested banner starts) and structured banner/macro configs, x syntax in {ios,nxos,iosxr,asa} x ignore_blank_lines "
        "x factory x comment_delimiters. Observed: get_text(), [o.linenum], whether the constructor raised. non-trivial = a blank line inside a body and one outside, or an "
        "unterminated banner/macro; distinct by (syntax class, ibl, line pattern). fac: lines the typed-model factories claim (one decorated line per is_object_for trigger, braces included), each config with the factory off and on.")
EXHAUSTIVE = {"quick": True, "thorough": True}
TRUSTED = ["Coq 8.16.1 kernel incl. vm_compute (no native_compute)",
           "hand model coq/Model/Parse.v (single forward scan equivalent to the code's per-start forward walks; ignore_blank_lines filter; bootstrap twice), tied by this correspondence",
           "banner regexes are an oracle: the harness evaluates the SPECIFIED regexes (harness/parsegen.py) with Python re and attaches the answers to each line; "
           "the theorems assume only oracle_ok (a blank line is not a banner start; a delimiter is a non-space character), checked on every case",
           "the typed-model factory only chooses the line class: not modelled; checked by running every case with factory on and off"]
ASSUMPTIONS = ["factory=True together with ignore_blank_lines=True is rejected by design (NotImplementedError) and counts as a factory rejection"]
TECHNIQUE = "Coq proof (induction over the line list: the blank-line filter is idempotent, so bootstrap-then-commit keeps exactly the lines outside-body-blank removal keeps) + exhaustive/random vm_compute correspondence"
LEVEL_TEXT = ("Theorems for every line list and option set: without ignore_blank_lines the constructor keeps every line unchanged and in order (parse_lossless); with it, exactly "
              "the blank lines outside banner/macro bodies are removed (parse_lossless_ibl, removed_only_blank_outside), although the constructor filters twice "
              "(ibl_filter_idempotent — the non-obvious part); line numbers are 0..n-1 (linenum_seq); committing again changes nothing (commit_idempotent). "
              "Totality (no exception) is a property of the real code checked by the correspondence: the model has no raising branch.")
LEVEL_NOTE = ("Trusted: Coq kernel + vm_compute; the hand model (tied by exhaustive small-scope + random correspondence, not translated); the banner-regex oracle; the driver. "
              "Factory transparency and totality are decided by the correspondence run (every case is executed with factory off and on), not by a theorem about the factory classes.")

SYM = ["a", " b", "", "  ", "!c", "banner motd ^", "banner motd ^ x ^", "^", " ^", "macro name m", "@", "banner login #", "#", "  c"]
SYNS = ["ios", "nxos", "iosxr", "asa"]
DELIMS = [["!"], ["#"], ["!", "#"], []]


def gen(rng, tier, escalate):
    cases = []
    maxlen = 4 if tier == "thorough" else 3
    for n in range(1, maxlen + 1):
        for seq in itertools.product(SYM, repeat=n):
            for ibl in (False, True):
                for syn in ("ios", "nxos"):
                    cases.append({"syntax": syn, "ibl": ibl, "factory": False, "delims": ["!"], "lines": list(seq), "kind": "exh"})
    nrand = 2500 * (4 if (tier == "thorough" or escalate) else 1)
    for t in range(nrand):
        lines = parsegen.structured(rng) if t % 3 == 0 else parsegen.random_lines(rng, 60 if t % 50 == 0 else 9)
        ibl = rng.random() < 0.5
        fac = (not ibl) and rng.random() < 0.3
        cases.append({"syntax": rng.choice(SYNS), "ibl": ibl, "factory": fac, "delims": rng.choice(DELIMS), "lines": lines, "kind": "rnd"})
    # lines the typed-model factories claim (decorated with braces etc.): the same config with the factory off and on
    for t in range(nrand // 5):
        lines = parsegen.factory_lines(rng)
        syn, dl = rng.choice(SYNS), rng.choice(DELIMS)
        for fac in (False, True):
            cases.append({"syntax": syn, "ibl": False, "factory": fac, "delims": dl, "lines": lines, "kind": "fac"})
    return cases


def run(c):
    from ciscoconfparse2 import CiscoConfParse
    try:
        p = CiscoConfParse(list(c["lines"]), syntax=c["syntax"], factory=c["factory"], ignore_blank_lines=c["ibl"], comment_delimiters=list(c["delims"]))
        texts = p.get_text()
        otexts = [o.text for o in p.objs]
        if texts != otexts:
            return {"raised": "get_text() differs from [o.text]"}
        return {"texts": texts, "nums": [o.linenum for o in p.objs], "raised": None}
    except BaseException as e:
        return {"raised": type(e).__name__}


def lit(c, o):
    head = "(%s, %s, %s)" % (common.blit(c["syntax"] == "ios"), common.blit(c["ibl"]), common.blit(c["factory"]))
    d = "[" + "; ".join(str(ord(x)) for x in c["delims"]) + "]%N"
    if o["raised"]:
        r = "None"
    else:
        r = "(Some ([%s], [%s]))" % ("; ".join(common.strlit(t) for t in o["texts"]), "; ".join(str(n) for n in o["nums"]))
    return "(%s, %s, %s, %s)" % (head, d, parsegen.lines_lit(c["lines"]), r)


def nontrivial(c, o):
    ls = c["lines"]
    blank = [i for i, l in enumerate(ls) if l.strip() == ""]
    starts = [i for i, l in enumerate(ls) if parsegen.pban(l) or l.startswith("macro name ")]
    if starts and blank and (min(blank) < min(starts) or c["ibl"]):
        return (c["syntax"] == "ios", c["ibl"], tuple("B" if parsegen.pban(l) else ("M" if l.startswith("macro name ") else ("_" if l.strip() == "" else "x")) for l in ls))
    return None


def describe(c, o):
    return {"lines": c["lines"], "syntax": c["syntax"], "ignore_blank_lines": c["ibl"], "factory": c["factory"], "comment_delimiters": c["delims"], "impl": o}


STREAMS = [Stream("construct", gen, run, lit,
                  "From Coq Require Import List NArith. Import ListNotations. Require Import CCP.Corr.C01.",
                  "case01", "agree01", show="model01", nontrivial=nontrivial, describe=describe, shard=300)]
