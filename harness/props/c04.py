"""C04 — searches return exactly the matching lines, ordered and de-duplicated."""
import itertools
import re

from runner import Stream
import common

ID = "C04"
LEVEL = "proof"
PROPS = "Props/C04.vo"
MODEL_TARGETS = ["Corr/C04.vo"]
OBLIGATION_FILES = ["Props/C04.v"]
_M = "ciscoconfparse2/ciscoconfparse2.py"
_A = "ciscoconfparse2/ccp_abc.py"
ANCHORS = [(_M, "CiscoConfParse.find_objects"), (_M, "CiscoConfParse._find_line_OBJ"),
           (_M, "CiscoConfParse.find_object_branches"), (_M, "CiscoConfParse._find_child_object_branches"),
           (_M, "CiscoConfParse.find_parent_objects"), (_M, "CiscoConfParse.find_parent_objects_wo_child"),
           (_M, "CiscoConfParse.find_child_objects"), (_M, "CiscoConfParse.re_search_children"),
           (_M, "build_space_tolerant_regex"),
           (_A, "BaseCfgLine.re_search"), (_A, "BaseCfgLine.re_search_children"), (_A, "BaseCfgLine.has_child_with"),
           (_A, "BaseCfgLine.all_children"), (_A, "BaseCfgLine.re_match"), (_A, "BaseCfgLine.__len__"),
           (_A, "BaseCfgLine.__lt__"), (_A, "BaseCfgLine.__hash__"), (_A, "BaseCfgLine.__eq__")]
RULE = ("each case = one config (random indentation tree, <= 40 lines, depth <= 5, small word alphabet so that texts repeat, a parent that also "
        "matches the child regex, matching grandchildren, comments, blank lines, double spaces, regex metacharacters in the text) + ONE query of one "
        "search API with its flags; the real objects' parent/children links are dumped and the regex truth tables (re.search / re.fullmatch / "
        "whitespace-run tolerant / literal) are computed by the harness as the specified meaning of the flags; the Gallina model is evaluated on "
        "that forest and oracle by vm_compute and compared with the line numbers (and None) the implementation returned.  Exhaustive part: every "
        "indentation tree with <= 3 lines (quick) / <= 4 lines (thorough) over the 2-word alphabet {a, ab} x every regex chain of length <= 2 over "
        "{a, b, a$} x every API (find_objects plain and exact+reversed, root search, both list forms, branches with and without empty_branches, the "
        "three two-argument forms at recurse False and True, the wo_child list form, re_search_children on lines 0 and 1), plus a sample of the "
        "length-3 chains; the flag cross-product (exactmatch, ignore_ws, escape_chars, reverse, recurse, documented defaults) is sampled on the "
        "random configs.  non-trivial = the answer is a non-empty proper selection (or a branch list with >= 1 branch) -- distinct by "
        "(API, flags, chain length, size of answer, number of lines). Every dumped forest must be the tree the text denotes: parents and child lists equal the indentation rule (spec_links, a Python restatement that the treespec stream compares with Model/Links.v spec_parents/spec_children on every generated config; configs without banner/macro lines) and child lists are exactly the ascending lines pointing to that parent.")
EXHAUSTIVE = {"quick": True, "thorough": True}
TRUSTED = [
    "Coq 8.16.1 kernel incl. vm_compute",
    "python `re` as the regex oracle: re.search(rx, text) depends only on (rx, text); the harness's reading of the flags "
    "(exactmatch = re.fullmatch, ignore_ws = every whitespace run of the regex matches \\s+, escape_chars = literal substring) is the specification of the rewriting",
    "the forest is dumped from the real objects (obj.parent.linenum, obj.children, len(obj.text)); the parser itself is the subject of C01-C03",
    "correspondence driver harness/props/c04.py and the Gallina literal emitter",
]
ASSUMPTIONS = ["children of a line have larger line numbers and are lines of the config (checked on every case)",
               "a line with empty text has no children and is nobody's child (checked on every case)",
               "regexes are valid, without back-references or inline flags; two-argument child regexes match a non-empty string",
               "list forms are called with default flags (they ignore ignore_ws/reverse and raise TypeError with escape_chars=True)"]

# --------------------------------------------------------------------------- configs
WORDS = ["interface", "Eth1", "Eth10", "Eth2", "ip", "address", "shutdown", "no", "vlan", "10", "a+b", "x(1)", "1.1.1.1", "aab", "p", "q"]
SMALL = ["a", "ab"]


def gen_config(rng, maxlines=40, maxdepth=5, words=WORDS, blanks=True):
    n = rng.choice([1, 2, 3, 4, 5, 6, 8, 10, 12, 16, 24, maxlines]) if maxlines > 6 else rng.randint(1, maxlines)
    lines, depth = [], 0
    few = rng.sample(words, rng.randint(2, min(6, len(words))))
    for i in range(n):
        depth = 0 if i == 0 else rng.choice([d for d in range(0, min(maxdepth, depth + 1) + 1)] + [depth, min(maxdepth, depth + 1)])
        k = rng.random()
        if blanks and k < 0.04 and i > 0:
            lines.append("")
            depth = 0
            continue
        if k < 0.10:
            lines.append(" " * rng.choice([0, 0, depth]) + "!" + rng.choice(["", " " + rng.choice(few)]))
            continue
        nw = rng.choice([1, 1, 2, 2, 3])
        sep = rng.choice([" ", " ", " ", "  ", "\t"]) if nw > 1 else " "
        lines.append(" " * depth + sep.join(rng.choice(few) for _ in range(nw)))
    return lines


def small_configs(maxn, words=SMALL):
    """every indentation sequence d0=0, d(i+1) <= d(i)+1 with <= maxn lines x every word assignment"""
    out = []
    for n in range(1, maxn + 1):
        seqs = [[0]]
        for _ in range(n - 1):
            seqs = [s + [d] for s in seqs for d in range(0, s[-1] + 2)]
        for s in seqs:
            for ws in itertools.product(words, repeat=n):
                out.append([" " * d + w for d, w in zip(s, ws)])
    return out


def _valid(rx):
    try:
        re.compile(rx)
        return True
    except re.error:
        return False


def gen_regex(rng, cfg, literal=False):
    """substrings, anchors, alternations, capture groups, multi-word (for ignore_ws), literals with metacharacters (for escape_chars)"""
    toks = [w for l in cfg for w in l.split()] or ["x"]
    w = rng.choice(toks)
    w2 = rng.choice(toks)
    k = rng.randrange(14)
    split = (w[:len(w) // 2] + " " + w[len(w) // 2:]) if len(w) > 1 else w      # 'Eth 10' must NOT match 'Eth10' under ignore_ws
    if literal:
        return rng.choice([w, w + " " + w2, rng.choice(cfg).strip() or w, w[:max(1, len(w) - 1)], w + "  " + w2, "a+b", "x(1)", "1.1.1.1", "(", "a|b", split])
    if k == 12:
        return " ".join(re.escape(x) for x in split.split(" "))
    if k == 13:
        # regexes whose match consists of blanks only, or of nothing: a line matches whatever the matched text looks like
        return rng.choice([r"^\s+", "^ ", r"^\s\s", r"^(\s+)", " ", r"\s$", r"^\s*", "", r"^(\s*)\S", r"\s" + re.escape(w[:1])])
    if k == 0:
        return re.escape(w)
    if k == 1:
        return r"^\s*" + re.escape(w)
    if k == 2:
        return re.escape(w) + "$"
    if k == 3:
        return re.escape(w) + "|" + re.escape(w2)
    if k == 4:
        return "(" + re.escape(w[:1]) + ")(" + re.escape(w[1:]) + ")" if len(w) > 1 else "(" + re.escape(w) + ")"
    if k == 5:
        return re.escape(w) + " " + re.escape(w2)
    if k == 6:
        return "^" + re.escape(w)
    if k == 7:
        return re.escape(w[:max(1, len(w) // 2)])
    if k == 8:
        return "^" + re.escape(w) + "|" + re.escape(w2) + "$"
    if k == 9:
        return w if _valid(w) else re.escape(w)          # a+b, x(1), 1.1.1.1 used AS regexes
    if k == 10:
        line = rng.choice(cfg).strip()
        return re.escape(line) if line else re.escape(w)
    return re.escape(w) + "  " + re.escape(w2)


FLAGS4 = list(itertools.product([False, True], repeat=4))


def _queries_for(rng, cfg, n_each=1, small=None):
    """one query of every API kind (random flags) for this config"""
    qs = []
    def rx():
        return small and rng.choice(small) or gen_regex(rng, cfg)
    for _ in range(n_each):
        ex, ws, esc, rv = rng.choice(FLAGS4)
        r = gen_regex(rng, cfg, literal=True) if (esc and not small) else rx()
        if rng.random() < 0.1 and not small and not esc:
            r = rng.choice(["", "^", "$", "^$", r"^\s*$"])           # line search with regexes that match the empty string
        qs.append({"k": "find", "rx": [r], "ex": ex, "ws": ws, "esc": esc, "rev": rv, "aslist": rng.random() < 0.3})
        qs.append({"k": "root", "rx": [rx()], "recurse": rng.random() < 0.5})
        L = rng.choice([2, 2, 3, 4])
        qs.append({"k": "branches", "rx": [rx() for _ in range(L)], "empty": rng.random() < 0.5, "rev": rng.random() < 0.3,
                   "astuple": rng.random() < 0.5})
        qs.append({"k": "parents_l", "rx": [rx() for _ in range(rng.choice([1, 2, 2, 3, 4]))]})
        qs.append({"k": "children_l", "rx": [rx() for _ in range(rng.choice([1, 2, 2, 3, 4]))]})
        for kind in ("parents_2", "children_2", "wo_2"):
            ws, rc, esc, rv = rng.choice(FLAGS4)
            dflt = rng.random() < 0.15                # call with the documented defaults (no keyword arguments)
            if esc and not small and not dflt:
                pr, cr = gen_regex(rng, cfg, literal=True), gen_regex(rng, cfg, literal=True)
            else:
                pr, cr = rx(), rx()
            qs.append({"k": kind, "rx": [pr, cr], "ws": ws, "recurse": rc, "esc": esc, "rev": rv, "defaults": dflt})
        qs.append({"k": "wo_l", "rx": [rx(), rx()]})
        line = rng.randrange(len(cfg))        # taken modulo the number of parsed lines (blank lines may be dropped)
        qs.append({"k": "obj_rsc", "rx": [rx()], "line": line, "recurse": rng.random() < 0.5})
        qs.append({"k": "obj_hcw", "rx": [rx()], "line": line, "allc": rng.random() < 0.5})
        qs.append({"k": "obj_rs", "rx": [rx()], "line": rng.randrange(len(cfg))})
    return qs


SMALL_RX = ["a", "b", "a$"]


def _exhaustive(maxn):
    """every small config x every API x every chain of length <= 2 over SMALL_RX"""
    cases = []
    chains1 = [[r] for r in SMALL_RX]
    chains2 = [[a, b] for a in SMALL_RX for b in SMALL_RX]
    for cfg in small_configs(maxn):
        base = {"cfg": cfg, "ibl": True}
        for ch in chains1:
            cases.append({**base, "q": {"k": "find", "rx": ch, "ex": False, "ws": False, "esc": False, "rev": False, "aslist": False}})
            cases.append({**base, "q": {"k": "find", "rx": ch, "ex": True, "ws": False, "esc": False, "rev": True, "aslist": True}})
            cases.append({**base, "q": {"k": "root", "rx": ch, "recurse": False}})
            cases.append({**base, "q": {"k": "parents_l", "rx": ch}})
            cases.append({**base, "q": {"k": "children_l", "rx": ch}})
        for ch in chains2:
            for em in (False, True):
                cases.append({**base, "q": {"k": "branches", "rx": ch, "empty": em, "rev": False, "astuple": em}})
            cases.append({**base, "q": {"k": "parents_l", "rx": ch}})
            cases.append({**base, "q": {"k": "children_l", "rx": ch}})
            for rc in (False, True):
                for kind in ("parents_2", "children_2", "wo_2"):
                    cases.append({**base, "q": {"k": kind, "rx": ch, "ws": False, "recurse": rc, "esc": False, "rev": False, "defaults": False}})
            cases.append({**base, "q": {"k": "wo_l", "rx": ch}})
            for line in range(len(cfg)):
                if line < 2:
                    cases.append({**base, "q": {"k": "obj_rsc", "rx": ch[:1], "line": line, "recurse": ch[1] == "a"}})
    return cases


def gen(rng, tier, escalate):
    big = tier == "thorough" or escalate
    cases = _exhaustive(4 if big else 3)
    # chains of length 3 over the small alphabet on all 4-line trees (quick: 3-line trees)
    for cfg in small_configs(4 if big else 3):
        if len(cfg) < 3:
            continue
        for ch in itertools.product(SMALL_RX, repeat=3):
            if rng.random() < (0.5 if big else 0.35):
                k = rng.choice(["branches", "parents_l", "children_l"])
                q = {"k": k, "rx": list(ch)}
                if k == "branches":
                    q.update({"empty": rng.random() < 0.5, "rev": rng.random() < 0.2, "astuple": False})
                cases.append({"cfg": cfg, "ibl": True, "q": q})
    nrand = 2600 if big else 520
    for i in range(nrand):
        small = rng.random() < 0.25
        cfg = gen_config(rng, maxlines=8, words=SMALL, blanks=False) if small else gen_config(rng)
        ibl = rng.random() < 0.6
        for q in _queries_for(rng, cfg, small=SMALL_RX + ["^a", "a|b", "(a)(b)"] if small else None):
            cases.append({"cfg": cfg, "ibl": ibl, "q": q})
    # hand-written regression shapes (duplicates under two parents, parent matching the child regex, F25/F04 shapes)
    for cfg, q in [
        (["p", " xa+b", "q", " aab"], {"k": "parents_2", "rx": ["p|q", "a+b"], "ws": False, "recurse": True, "esc": False, "rev": False, "defaults": True}),
        (["p", " xa+b", "q", " aab"], {"k": "wo_2", "rx": ["p|q", "a+b"], "ws": False, "recurse": False, "esc": False, "rev": False, "defaults": True}),
        (["p", " xa+b", "q", " aab"], {"k": "obj_hcw", "rx": ["a+b"], "line": 0, "allc": False}),
        (["Eth1", "Eth10", "xEth2", "Eth2"], {"k": "find", "rx": ["Eth1|Eth2"], "ex": True, "ws": False, "esc": False, "rev": False, "aslist": False}),
        (["a", " a", "  a", "   a", "a", " b"], {"k": "branches", "rx": ["a", "a", "a", "a"], "empty": True, "rev": False, "astuple": True}),
        (["a", " a", "  a", "   a", "a", " b"], {"k": "children_2", "rx": ["a", "a"], "ws": False, "recurse": True, "esc": False, "rev": True, "defaults": False}),
        (["a b", "a  b", "a\\ssb", "p", " a b"], {"k": "find", "rx": ["a b"], "ex": False, "ws": True, "esc": False, "rev": False, "aslist": False}),
    ]:
        cases.append({"cfg": cfg, "ibl": True, "q": q})
    return cases


# --------------------------------------------------------------------------- specified meaning of the flags (the oracle)
_WS = re.compile(r"(\s+)")


def eff_regex(rx, ws, esc):
    """the regular expression the flags denote: escape_chars -> the literal string; ignore_ws -> every
    whitespace run of the (literal or regex) string stands for \\s+"""
    if not ws:
        return re.escape(rx) if esc else rx
    parts = _WS.split(rx)
    return "".join(r"\s+" if (i % 2 == 1) else (re.escape(p) if esc else p) for i, p in enumerate(parts))


def oracle(rx, texts):
    """8 entries (mode = 4*exact + 2*ws + esc): (truth bits, nometa, literal bits, non-empty bits)"""
    out = []
    for ex in (False, True):
        for ws in (False, True):
            for esc in (False, True):
                t = lb = nb = 0
                nometa = False
                try:
                    e = eff_regex(rx, ws, esc)
                    pat = re.compile(e)
                except re.error:
                    out.append((0, False, 0, 0))
                    continue
                if not ex:
                    nometa = (re.escape(e) == e)
                for i, s in enumerate(texts):
                    if esc and not ws:
                        hit = (rx == s) if ex else (rx in s)            # literal, independently of re.escape
                    else:
                        hit = (pat.fullmatch(s) if ex else pat.search(s)) is not None
                    if hit:
                        t |= 1 << i
                    if not ex:
                        if e in s:
                            lb |= 1 << i
                        m = pat.search(s)
                        if m is not None and m.group(0) != "":
                            nb |= 1 << i
                out.append((t, nometa, lb, nb))
    return out


def parse(case):
    from ciscoconfparse2 import CiscoConfParse
    return CiscoConfParse(list(case["cfg"]), syntax=case.get("syntax", "ios"), ignore_blank_lines=case.get("ibl", True))


def spec_links(texts, delims=("!",)):
    """The indentation rule of C02 restated (configs without banner/macro lines): (parents, child lists); a root is its own parent."""
    info = []
    for t in texts:
        st = t.lstrip()
        info.append((len(t) - len(st), bool(st) and st[:1] not in delims, st[:1] in delims and bool(st)))
    par = []
    for i, (ind, _cfg, cmt) in enumerate(info):
        p = i
        if ind > 0 and not (cmt and i > 0 and info[i - 1][0] > ind):
            for j in range(i - 1, -1, -1):
                if info[j][1] and info[j][0] < ind:
                    p = j
                    break
        par.append(p)
    return par, [[j for j in range(len(texts)) if par[j] == i and j != i] for i in range(len(texts))]


def dump_forest(p):
    objs = list(p.objs)
    idx = {id(o): i for i, o in enumerate(objs)}
    f = {"par": [idx.get(id(o.parent), -1) for o in objs],
         "kids": [[idx.get(id(c), -1) for c in o.children] for o in objs],
         "tru": [1 if len(o.text) > 0 else 0 for o in objs],
         "linenum_ok": all(o.linenum == i for i, o in enumerate(objs)),
         "texts": [o.text for o in objs]}
    # the searches are specified over the tree THE TEXT denotes: a forest that is not the one the indentation rule gives
    # (C02/C03) makes every answer computed from it wrong for the text; such a case is reported as a disagreement
    # child lists are exactly the ascending lines whose parent is that line (C03), banner/macro bodies included
    derived = [[j for j in range(len(objs)) if f["par"][j] == i and j != i] for i in range(len(objs))]
    if derived != f["kids"]:
        f["linenum_ok"] = False
        f["child_lists_do_not_match_parent_links"] = {"children_from_parent_links": derived}
    import parsegen
    if not any(parsegen.pban(t) or t.startswith("macro name") for t in f["texts"]):
        sp, sk = spec_links(f["texts"])
        if sp != f["par"] or sk != f["kids"]:
            f["linenum_ok"] = False
            f["forest_is_not_the_indentation_tree"] = {"spec_parents": sp, "spec_children": sk}
    return f


def _ln(objs):
    return [None if o is None else o.linenum for o in objs]


def run(case):
    q = case["q"]
    p = parse(case)
    f = dump_forest(p)
    k = q["k"]
    rx = q["rx"]
    obs = {"forest": f}
    if k == "wo_l":
        # F03 prediction: what the two-argument form answers for the child regex parentspec[0][1]
        if len(rx[0]) >= 2:
            try:
                obs["f03"] = _ln(p.find_parent_objects_wo_child(rx[0], rx[0][1]))
            except BaseException:
                obs["f03"] = "raised"
            rx = rx + [rx[0][1]]
        else:
            obs["f03"] = "raised"
    obs["orc"] = [oracle(r, f["texts"]) for r in rx]
    n = len(f["par"])
    line = q.get("line", 0) % max(n, 1)
    if q.get("ws") and q.get("esc") and not q.get("defaults") and k in ("find", "parents_2", "children_2", "wo_2"):
        # prediction of the ignore_ws+escape_chars defect: whitespace is replaced AFTER re.escape, which leaves the
        # escaping backslash in front of \s+ ; the call then behaves like the same call without the two flags on this regex
        bad_rx = [re.sub(r"\s+", lambda m: "\\s+", re.escape(r)) for r in rx]
        try:
            if k == "find":
                pred = _ln(p.find_objects(bad_rx[0], exactmatch=q["ex"], reverse=q["rev"]))
            else:
                fn = {"parents_2": p.find_parent_objects, "children_2": p.find_child_objects, "wo_2": p.find_parent_objects_wo_child}[k]
                pred = _ln(fn(bad_rx[0], bad_rx[1], recurse=q["recurse"], reverse=q["rev"]))
        except BaseException:
            pred = "raised"
        obs["wsesc_pred"] = pred
    try:
        if k == "find":
            out = _ln(p.find_objects(rx if q["aslist"] else rx[0], exactmatch=q["ex"], ignore_ws=q["ws"], escape_chars=q["esc"], reverse=q["rev"]))
        elif k == "root":
            out = _ln(p.re_search_children(rx[0], recurse=q["recurse"]))
        elif k == "branches":
            spec = tuple(rx) if q.get("astuple") else list(rx)
            out = [_ln(b) for b in p.find_object_branches(spec, empty_branches=q["empty"], reverse=q["rev"])]
        elif k == "parents_l":
            out = _ln(p.find_parent_objects(list(rx)))
        elif k == "children_l":
            out = _ln(p.find_child_objects(list(rx)))
        elif k in ("parents_2", "children_2", "wo_2"):
            fn = {"parents_2": p.find_parent_objects, "children_2": p.find_child_objects, "wo_2": p.find_parent_objects_wo_child}[k]
            if q.get("defaults"):
                out = _ln(fn(rx[0], rx[1]))
            else:
                out = _ln(fn(rx[0], rx[1], ignore_ws=q["ws"], recurse=q["recurse"], escape_chars=q["esc"], reverse=q["rev"]))
        elif k == "wo_l":
            out = _ln(p.find_parent_objects_wo_child(list(q["rx"])))
        elif k == "obj_rsc":
            out = _ln(p.objs[line].re_search_children(rx[0], recurse=q["recurse"]))
        elif k == "obj_hcw":
            out = bool(p.objs[line].has_child_with(rx[0], all_children=q["allc"]))
        elif k == "obj_rs":
            out = p.objs[line].re_search(rx[0], default=False) is not False
        else:
            raise KeyError(k)
    except KeyError:
        raise
    except BaseException as e:
        out = "raised"
        obs["exc"] = type(e).__name__
    obs["out"] = out
    return obs


# --------------------------------------------------------------------------- literals
def _nl(xs):
    return "[" + "; ".join("%d" % x for x in xs) + "]"


def _eff_flags(q):
    """flags as the call received them (documented defaults when the call used them)"""
    if q.get("defaults"):
        rc = {"parents_2": True, "children_2": True, "wo_2": False}[q["k"]]
        return False, rc, False, False
    return q["ws"], q["recurse"], q["esc"], q["rev"]


def lit(c, o):
    q, f = c["q"], o["forest"]
    n = len(f["par"])
    bad = (not f["linenum_ok"]) or any(x < 0 for x in f["par"]) or any(x < 0 for ks in f["kids"] for x in ks)
    tru = sum(1 << i for i, t in enumerate(f["tru"]) if t)
    forest = "(%s, %s, %d%%N)" % ("[" + "; ".join(_nl(ks) for ks in f["kids"]) + "]", _nl(f["par"]), tru)
    orc = "[" + "; ".join("[" + "; ".join("(%d%%N, %s, %d%%N, %d%%N)" % (t, common.blit(m), l, e) for (t, m, l, e) in slot) + "]"
                          for slot in o["orc"]) + "]"
    k = q["k"]
    b = common.blit
    if k == "find":
        ql = "QFind 0 %s %s %s %s" % (b(q["ex"]), b(q["ws"]), b(q["esc"]), b(q["rev"]))
    elif k == "root":
        ql = "QRoot 0 %s" % b(q["recurse"])
    elif k == "branches":
        ql = "QBranches %s %s %s" % (_nl(range(len(q["rx"]))), b(q["empty"]), b(q["rev"]))
    elif k == "parents_l":
        ql = "QParentsL %s" % _nl(range(len(q["rx"])))
    elif k == "children_l":
        ql = "QChildrenL %s" % _nl(range(len(q["rx"])))
    elif k in ("parents_2", "children_2", "wo_2"):
        ws, rc, esc, rv = _eff_flags(q)
        ql = "%s 0 1 %s %s %s %s" % ({"parents_2": "QParents2", "children_2": "QChildren2", "wo_2": "QWo2"}[k], b(ws), b(rc), b(esc), b(rv))
    elif k == "wo_l":
        ql = "QWoL 0 1 %s" % ("(Some 2)" if len(o["orc"]) == 3 else "None")
    elif k == "obj_rsc":
        ql = "QObjRSC %d 0 %s" % (q["line"] % max(n, 1), b(q["recurse"]))
    elif k == "obj_hcw":
        ql = "QObjHCW %d 0 %s" % (q["line"] % max(n, 1), b(q["allc"]))
    elif k == "obj_rs":
        ql = "QObjRS %d 0" % (q["line"] % max(n, 1))
    out = o["out"]
    if bad or out == "raised":
        al = "ARaised"
    elif isinstance(out, bool):
        al = "ABool %s" % b(out)
    elif k == "branches":
        al = "ABranches [%s]" % "; ".join("[" + "; ".join("None" if x is None else "Some %d" % x for x in br) + "]" for br in out)
    else:
        al = "ALines %s" % _nl(out) if all(x is not None for x in out) else "ARaised"
    return "(%s, %s, %s, %s)" % (forest, orc, ql, al)


def nontrivial(c, o):
    q, out = c["q"], o["out"]
    n = len(o["forest"]["par"])
    if out == "raised":
        return None
    if isinstance(out, bool):
        return (q["k"], out, q.get("allc"), min(n, 12)) if len(o["forest"]["kids"][q["line"] % max(n, 1)]) > 0 else None
    if len(out) == 0 or (q["k"] not in ("branches",) and len(out) >= n):
        return None
    fl = tuple(q.get(x) for x in ("ex", "ws", "esc", "rev", "recurse", "empty", "defaults"))
    return (q["k"], fl, len(q["rx"]), min(len(out), 6), min(n, 12))


def known(c, o, kf):
    q = c["q"]
    for k in kf:
        trig = k.get("trigger")
        if trig == "c04_wo_child_list_form" and q["k"] == "wo_l":
            # exactly the defect: the list form answers like the two-argument form with child regex parentspec[0][1]
            # (IndexError when the parent regex has fewer than two characters)
            if o["out"] == o.get("f03"):
                return k["id"]
        if trig == "c04_ignore_ws_with_escape_chars" and q.get("ws") and q.get("esc") and not q.get("defaults") \
                and q["k"] in ("find", "parents_2", "children_2", "wo_2") and any(_WS.search(r) for r in q["rx"]) \
                and "wsesc_pred" in o and o["out"] == o["wsesc_pred"]:
            # exactly the defect: the answer is that of the same call without the two flags on re.escape(regex) with the
            # whitespace runs (not their escaping backslashes) replaced by \s+
            return k["id"]
    return None


def describe(c, o):
    q = dict(c["q"])
    return {"config": c["cfg"], "ignore_blank_lines": c.get("ibl", True), "query": q, "impl_returned": o["out"],
            "exception": o.get("exc"), "parent_of_each_line": o["forest"]["par"]}


_PRE = ("From Coq Require Import List Arith Bool NArith. Import ListNotations. "
        "Require Import CCP.Model.Search CCP.Corr.C04. Open Scope nat_scope.")
_CT = "caseT"


def _mk(name, kinds, rule):
    def g(rng, tier, escalate, _k=kinds):
        return [c for c in _all_cases(rng, tier, escalate) if c["q"]["k"] in _k]
    return Stream(name, g, run, lit, preamble=_PRE, ctype=_CT, agree="agree04", show="show04", nontrivial=nontrivial,
                  known=known, shard=150, describe=describe, rule=rule)


_CACHE = {}


def _all_cases(rng, tier, escalate):
    """all streams draw from ONE generated pool (seeded from the first stream's rng) so that each config is queried through every API"""
    key = (tier, escalate)
    if key not in _CACHE:
        _CACHE[key] = gen(rng, tier, escalate)
    return _CACHE[key]


def gen_treespec(rng, tier, escalate):
    seen, out = set(), []
    for c in _all_cases(rng, tier, escalate):
        t = tuple(c["cfg"])
        if t not in seen:
            seen.add(t)
            out.append({"texts": list(t)})
    # indentation shapes the search configs do not have: comments under deeper lines, whitespace-only lines, tabs
    pool = ["a", " b", "  c", "   d", "!", " !x", "  !y", "", " ", "   ", "\tq", " \t r", "e f"]
    for _ in range(600 * (4 if (tier == "thorough" or escalate) else 1)):
        out.append({"texts": [rng.choice(pool) for _ in range(rng.randint(1, 9))]})
    return out


def run_treespec(c):
    par, kids = spec_links(c["texts"])
    return {"par": par, "kids": kids}


def lit_treespec(c, o):
    ps = "[" + "; ".join("None" if p == i else "Some %d" % p for i, p in enumerate(o["par"])) + "]"
    return "(%s, %s, %s)" % (common.listlit([common.strlit(t) for t in c["texts"]]), ps, "[" + "; ".join(_nl(k) for k in o["kids"]) + "]")


STREAMS = [
    Stream("treespec", gen_treespec, run_treespec, lit_treespec, preamble=_PRE, ctype="spec_case", agree="agree_spec", show="model_spec",
           nontrivial=lambda c, o: tuple((len(t) - len(t.lstrip()), t.lstrip()[:1] == "!", not t.strip()) for t in c["texts"]) if any(t.lstrip()[:1] == "!" and t[:1] == " " for t in c["texts"]) else None,
           describe=lambda c, o: {"texts": c["texts"], "python_spec_parents": o["par"], "python_spec_children": o["kids"]}, shard=250,
           rule="the Python restatement of the indentation rule used to vet dumped forests (spec_links) = Model/Links.v spec_parents/spec_children on every generated config"),
    _mk("lines", ("find", "root"), "find_objects (all flag combinations, list form) and CiscoConfParse.re_search_children"),
    _mk("branches", ("branches",), "find_object_branches, chains of 2..4 regexes, empty_branches, reverse, list/tuple form"),
    _mk("parents", ("parents_l", "parents_2"), "find_parent_objects: list form (1..4 regexes) and two-argument form with flags"),
    _mk("children", ("children_l", "children_2"), "find_child_objects: list form and two-argument form with flags"),
    _mk("wo_child", ("wo_2", "wo_l"), "find_parent_objects_wo_child: two-argument form with flags; list form (F03)"),
    _mk("objapi", ("obj_rsc", "obj_hcw", "obj_rs"), "BaseCfgLine.re_search / re_search_children / has_child_with on single lines"),
]

TECHNIQUE = ("Coq proof (unbounded: every forest, every regex oracle) about a hand-written Gallina model of the search API; "
             "vm_compute correspondence of the real find_* methods against the model on dumped forests")
LEVEL_TEXT = ("Machine-checked theorems (Coq 8.16.1, closed under the global context) for ALL forests (children lists of any shape) and ALL regex "
              "oracles: find_objects = filter in config order (reversed on request), sorted/duplicate-free/members of the config; "
              "find_object_branches = depth-first enumeration of the chains of direct parent-to-child lines matching regex i at depth i "
              "(order included), None-padded partial chains with empty_branches; list-form parent/child searches = ascending duplicate-free heads / "
              "last lines of complete chains; two-argument forms = filter by a matching direct (recurse=False) or transitive (recurse=True) child; "
              "wo_child = parents without such a child; list form of length 2 = two-argument form at recurse=False.  The model is tied to /repo "
              "by a correspondence run of every API on forests dumped from the real objects.")
LEVEL_NOTE = ("Trusted: Coq kernel + vm_compute; python `re` as oracle and the harness's reading of exactmatch/ignore_ws/escape_chars; the "
              "hand-written model (tied by correspondence + AST fingerprint escalation, not by translation); the forest dump.  Known findings: F03 "
              "(list form of find_parent_objects_wo_child), ignore_ws together with escape_chars.")
