"""C06 — edits change exactly the targeted lines."""
import itertools

from runner import Stream
import common
import editgen

ID = "C06"
LEVEL = "proof"
PROPS = "Props/C06.vo"
MODEL_TARGETS = ["Corr/C06.vo"]
OBLIGATION_FILES = ["Props/C06.v"]
ANCHORS = [("ciscoconfparse2/ccp_abc.py", "BaseCfgLine." + m) for m in
           ("insert_before", "insert_after", "delete", "append_to_family", "classify_family_indent", "replace_text", "re_sub", "_index_in_confobj", "safe_escape_curly_braces")] + \
          [("ciscoconfparse2/ciscoconfparse2.py", "ConfigList." + m) for m in ("insert", "append", "pop", "remove", "insert_before", "insert_after")]
RULE = ("histories of 1..6 operations (list insert/append/pop, list insert_before/after by regex, object insert_before/after, delete, replace_text, re_sub, append_to_family "
        "with explicit and automatic indent) on configs with duplicate texts, prefix texts (Eth1/Eth10), regex metacharacters, braces, blank/comment lines; every target index; "
        "auto_commit on, off with an explicit commit after each edit, and off with NO commit between edits for the operations that do not address lines by stored line number (all but delete / append_to_family); syntax ios and nxos (indent width 1 and 2). After EVERY step parse.get_text() is compared with the model "
        "(the list operation of the property); for append_to_family the observed insertion index must lie inside the family and no existing line may change parent "
        "(evaluated with the constructor model). exhaustive: every single operation x every target on every config of <= 3 lines over a 6-line alphabet. "
        "non-trivial = the target text occurs more than once or is a prefix/regex-match of another line, or the op is delete/append_to_family on a parent; distinct by (op kind, config). atf_repeat: 2-3 auto-indented append_to_family calls on the same line object that has children, auto_commit off, no commit in between.")
EXHAUSTIVE = {"quick": True, "thorough": True}
TRUSTED = ["Coq 8.16.1 kernel incl. vm_compute (no native_compute)",
           "hand model coq/Model/Session.v: each operation's text effect is the list operation named by the property; delete uses the descendants of the constructor model; tied by this correspondence after every step",
           "append_to_family: the insertion index is OBSERVED from the implementation and checked against the property's contract (inside the family, no parent changes) with the constructor model; its index arithmetic is modelled for the child case at auto_indent_width 1 only (atf_child_index = directly after the last descendant; tied on every committed ios state by atf_index_agrees), the sibling placement and the NotImplementedError branches are not modelled",
           "regex matching for list-level insert_before/after and re_sub/replace_text payloads: computed by the harness with Python re / str.replace (oracle)"]
ASSUMPTIONS = ["each edit is applied to a committed state (auto_commit on, or an explicit commit after every edit): with auto_commit off the library requires a commit before line numbers are valid again",
               "ignore_blank_lines is off in this property's histories (C07 covers it)"]
TECHNIQUE = "Coq theorems about the list operations (frame properties: every other line keeps its text and relative order) + vm_compute correspondence of get_text() after every step of generated histories"
LEVEL_TEXT = ("The model's operations ARE the list operations of the property; theorems state their frame properties for every list and target (insert adds exactly one line and keeps all "
              "others in order; delete removes exactly the selected index set; set_nth changes one line; flagged insertion adds one line per regex match). The real code is tied to these "
              "operations by comparing get_text() after every step of exhaustive single-operation and random multi-step histories, and append_to_family's contract (one line, inside the "
              "family, no existing parent changed) is evaluated on the implementation's observed insertion index with the proved constructor model. "
              "insertion_preserves_parents characterises when an inserted line leaves every existing parent link alone (conditions A and B), and insertion_after_family_preserves_parents proves both "
              "conditions for every insertion directly above a shallower ordinary command or at the end of the configuration (append_to_family's normal case).")
LEVEL_NOTE = ("PARTIAL for append_to_family: its index arithmetic is modelled only for the child case at indent width 1 (atf_child_index, theorems atf_child_index_iff / _in_family: directly after the last descendant, after every descendant); otherwise the contract is checked per observed case (the index it picks is not proved for all configs; what is proved is that the index the contract allows is harmless). Known findings F43 (sibling-level payload on a target with children is placed inside the family; pinned by a test) and F35 (families made "
              "non-contiguous by the comment exception) is recognised by its trigger. Trusted: Coq kernel + vm_compute, hand model, regex oracle, driver.")

SYM = ["a", " b", "  c", " Eth1", "!x", ""]


def gen(rng, tier, escalate):
    cases = []
    single = []
    for kind in ["insert", "append", "pop", "lins_before", "lins_after", "oins_before", "oins_after", "delete", "replace_text", "re_sub", "atf", "atf_auto"]:
        for s in ([" new", "a"] if kind not in ("pop", "delete") else [""]):
            single.append((kind, s))
    maxlen = 3 if tier == "quick" else 4
    for n in range(1, maxlen + 1):
        for seq in itertools.product(SYM, repeat=n):
            for kind, s in single:
                targets = range(n) if kind not in ("append", "lins_before", "lins_after") else [0]
                if kind == "insert":
                    targets = [-1, 0, n - 1, n, n + 2]
                for i in targets:
                    cases.append({"syntax": "ios", "ibl": False, "delims": ["!"], "ac": True, "lines": list(seq),
                                  "ops": [{"k": kind, "i": i if kind == "insert" else i + (3 if kind == "pop" else 0), "s": s, "rx": "a|Eth", "b": "a", "a2": "Z{"}], "kind": "exh"})
    if tier == "quick":
        cases = [c for j, c in enumerate(cases) if len(c["lines"]) < 3 or j % 3 == 0]
    nrand = 1500 * (4 if (tier == "thorough" or escalate) else 1)
    for t in range(nrand):
        lines, ops = editgen.gen_history(rng, 10, 6)
        cases.append({"syntax": rng.choice(["ios", "nxos", "ios", "asa"]), "ibl": False, "delims": ["!"], "ac": rng.random() < 0.6, "lines": lines, "ops": ops, "kind": "rnd"})
    # uncommitted sequences (auto_commit off, NO commit in between) of the operations that do not address lines
    # by their stored line number: each must still have the text effect of its list operation
    safe = ["insert", "append", "pop", "lins_before", "lins_after", "oins_before", "oins_after", "replace_text", "re_sub"]
    for t in range(nrand // 2):
        lines, ops = editgen.gen_history(rng, 8, 5)
        ops = [o for o in ops if o["k"] in safe]
        if len(ops) < 2:
            continue
        cases.append({"syntax": rng.choice(["ios", "nxos"]), "ibl": False, "delims": ["!"], "ac": False, "nocommit": True, "lines": lines, "ops": ops, "kind": "dirty"})
    # several auto-indented lines appended, without a commit in between, to the SAME line object that already has
    # children (one loop over the payloads, as in the documentation's example): each lands inside the family
    for t in range(nrand // 3):
        lines, _ = editgen.gen_history(rng, 8, 1)
        i = rng.randrange(len(lines))
        ops = [{"k": "atf_auto", "i": i, "s": rng.choice([" new", "zz", " Eth1", "a", "b", "x y"]), "same": True, "need_children": True, "rx": "a", "b": "a", "a2": "b"}
               for _ in range(rng.randint(2, 3))]
        cases.append({"syntax": rng.choice(["ios", "nxos"]), "ibl": False, "delims": ["!"], "ac": False, "nocommit": True, "lines": lines, "ops": ops, "kind": "atf_repeat"})
    return cases


def run(c):
    return editgen.execute(c, tree=False)


def nontrivial(c, o):
    if o.get("fatal") or not o["steps"]:
        return None
    ls = c["lines"]
    dup = len(set(ls)) < len(ls) or any(a != b and a.strip() and a.strip() in b for a in ls for b in ls)
    kinds = tuple(op["k"] for op in c["ops"])
    if dup or any(k in ("delete", "atf", "atf_auto") for k in kinds):
        return (kinds, tuple(ls), c["ac"])
    return None


def describe(c, o):
    return {"lines": c["lines"], "syntax": c["syntax"], "auto_commit": c["ac"], "ops": c["ops"],
            "steps": [{"op": s["op"], "after": s["after"][0] if s["after"] else "raised", "broken": s.get("broken")} for s in o.get("steps", [])][:8],
            "notes": o.get("notes"), "fatal": o.get("fatal")}


def known(c, o, kf):
    """F35: append_to_family next to a comment line that the comment exception had left unattached (or whose
    family is non-contiguous because of such a comment): an existing line changes parent."""
    if o.get("fatal"):
        return None
    # F43: a payload at the target's own indent on a target that has children (the line below it is deeper) is
    # placed at linenum + len(children), inside the family
    ids43 = [k["id"] for k in kf if k.get("trigger") == "c06_atf_sibling_with_children"]
    if ids43:
        ind = lambda t: len(t) - len(t.lstrip())
        before = c["lines"]
        for s in o["steps"]:
            if s["op"].startswith("(OAtf ") and s["after"] and not s.get("broken"):
                parts = s["op"].split(" ", 3)
                i, k = int(parts[1]), int(parts[2])
                pay = s["after"][0][k]
                w = 2 if c["syntax"] == "nxos" else 1
                # classify_family_indent(payload) == 0 (the code's notion of "sibling level": the indent difference
                # in units of auto_indent_width, truncated toward zero)
                sib = int((ind(pay) - ind(before[i])) / w) == 0
                # the target has children: the first configuration line below it is deeper
                # (some line below it, before the next configuration line that is not deeper, is deeper -- children
                # may be blank-but-indented or comment lines as well)
                has_kids = False
                for t in before[i + 1:]:
                    if ind(t) > ind(before[i]):
                        has_kids = True
                        break
                    if t.strip() and t.lstrip()[:1] not in c["delims"]:
                        break
                if pay.strip() and sib and has_kids:
                    return ids43[0]
            if s["after"] and not s.get("broken"):
                before = s["after"][0]
    ids = [k["id"] for k in kf if k.get("trigger") == "c06_atf_comment_exception"]
    if not ids:
        return None
    has_atf = any(s["op"].startswith("(OAtf") for s in o["steps"])
    # a comment line with positive indent directly below a deeper line, somewhere in a text the history went through
    def exc(texts):
        for a, b in zip(texts, texts[1:]):
            sb = b.lstrip()
            if sb[:1] in c["delims"] and 0 < len(b) - len(sb) < len(a) - len(a.lstrip()):
                return True
        return False
    texts_seen = [c["lines"]] + [s["after"][0] for s in o["steps"] if s["after"] and not s.get("broken")]
    if has_atf and any(exc(t) for t in texts_seen):
        return ids[0]
    return None


STREAMS = [Stream("edits", gen, run, editgen.hist_lit,
                  "From Coq Require Import List NArith ZArith. Import ListNotations. Require Import CCP.Model.Parse CCP.Model.Session CCP.Corr.C06.",
                  "case06", "agree06", show="model_hist", nontrivial=nontrivial, describe=describe, known=known, shard=200)]
