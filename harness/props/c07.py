"""C07 — after commit the tree is that of a fresh parse, for any edit history."""
import itertools

from runner import Stream
import common
import editgen

ID = "C07"
LEVEL = "proof"
PROPS = "Props/C07.vo"
MODEL_TARGETS = ["Corr/C06.vo"]
OBLIGATION_FILES = ["Props/C07.v"]
ANCHORS = [("ciscoconfparse2/ciscoconfparse2.py", q) for q in
           ("CiscoConfParse.commit", "ConfigList.commit", "ConfigList.bootstrap", "ConfigList.get_checkpoint", "ConfigList.search_safe", "ConfigList.insert", "ConfigList.append",
            "ConfigList.pop", "ConfigList.insert_before", "ConfigList.insert_after", "CiscoConfParse.find_objects", "CiscoConfParse.find_parent_objects",
            "CiscoConfParse.find_child_objects", "CiscoConfParse.find_parent_objects_wo_child", "CiscoConfParse.find_object_branches", "CiscoConfParse.re_match_iter_typed")] + \
          [("ciscoconfparse2/ccp_abc.py", "BaseCfgLine." + m) for m in ("get_unique_identifier", "delete", "append_to_family", "replace_text", "re_sub", "all_parents", "re_search_children")]
RULE = ("histories of 1..8 editing operations (all kinds of C06) from configs of up to 12 lines incl. banner/macro-bearing ones; auto_commit on, and off with an explicit commit "
        "after every edit; ignore_blank_lines on/off; syntax ios/nxos/iosxr/asa. After every step: (a) the dump (texts, line numbers, parents, child lists) of parse.objs is compared "
        "with the dump of CiscoConfParse(parse.get_text(), same options) on the real code, (b) texts and parents are compared with the model (commit = constructor of the current text), "
        "(c) 13 of the 14 guarded search entry points (all but re_sub, which is exercised as an edit) are called: they must all refuse (NotImplementedError) exactly when the model says the state is dirty (after insert / object insert / "
        "append_to_family with auto_commit off, before commit) and all answer otherwise. exhaustive: every history of depth <= 2 over 7 operation kinds x every target on every config of <= 2 lines "
        "over a 5-line alphabet incl. a banner start. non-trivial = a history whose committed tree differs from the initial one in some parent link, or one that visits a dirty state; "
        "distinct by (ops, config, options).")
EXHAUSTIVE = {"quick": True, "thorough": True}
TRUSTED = ["Coq 8.16.1 kernel incl. vm_compute (no native_compute)",
           "hand models coq/Model/Session.v + coq/Model/Parse.v; in the model commit IS the constructor applied to the current text, the correspondence checks the code does that after every step",
           "search_safe: the checkpoint is a sum of Python hashes of (linenum, text); the model abstracts it to a dirty flag set by the operations that refresh current_checkpoint "
           "(ConfigList.insert and what calls it) — i.e. it ASSUMES the hash sum separates the states before and after an insertion (ck_separates); the tie checks the real seat-belt on every generated history",
           "banner-regex oracle (see C01)"]
ASSUMPTIONS = ["ck_separates: hash((linenum, text)) sums differ before/after an insertion (cannot be proved of a hash; observed on every case)",
               "with auto_commit off an explicit commit follows every edit (the property's quantifier: 'off + explicit commit')"]
TECHNIQUE = "Coq proof of the session invariant by induction over histories (commit = constructor of the text; idempotent) + vm_compute correspondence of tree and search refusal after every step, plus fresh-parse differential on the real code"
LEVEL_TEXT = ("Theorems: after every committed step of every history the session state is the constructor applied to its own text (inv_hist_autocommit, step_autocommit_committed, commit_committed), committing again changes nothing "
              "(commit_idempotent, from the filter idempotence of C01), the forest is well-formed after every commit (committed_forest), and searches are refused exactly in dirty states, "
              "which arise only from checkpoint-refreshing operations without auto-commit and end at the next commit (search_refused_when_dirty / search_ok_after_commit / search_ok_with_autocommit). The code is tied to this "
              "after EVERY step by the property's own observation (dump vs dump of a fresh parse of get_text()) and by comparison with the model.")
LEVEL_NOTE = ("Model-level theorems are short because commit is construct-of-text in the model; their value is that the tie checks exactly that refinement after every step. "
              "The checkpoint seat-belt is abstracted to a dirty flag under the named assumption ck_separates. Trusted: Coq kernel + vm_compute, hand models, regex oracle, driver.")

SYM = ["a", " b", "", "banner motd ^", "^"]
KINDS = ["insert", "append", "oins_after", "delete", "replace_text", "atf_auto", "pop"]


def gen(rng, tier, escalate):
    cases = []
    depth = 2
    for n in (1, 2):
        for seq in itertools.product(SYM, repeat=n):
            single = []
            for kind in KINDS:
                for i in range(n):
                    single.append({"k": kind, "i": i + (3 if kind == "pop" else 0), "s": " x" if kind != "insert" else "", "rx": "a", "b": "a", "a2": "b"})
            hists = [[o] for o in single]
            if n == 2 or tier == "thorough":
                hists += [[a, b] for a in single[::2] for b in single[1::3]]
            for h in hists:
                for ac in (True, False):
                    cases.append({"syntax": "ios", "ibl": False, "delims": ["!"], "ac": ac, "lines": list(seq), "ops": h, "kind": "exh"})
    if tier == "quick":
        cases = [c for j, c in enumerate(cases) if len(c["ops"]) == 1 or j % 4 == 0]
    nrand = 1200 * (4 if (tier == "thorough" or escalate) else 1)
    for t in range(nrand):
        ibl = rng.random() < 0.3
        lines, ops = editgen.gen_history(rng, 12, 8, banner=(t % 3 == 0), ibl=ibl)
        cases.append({"syntax": rng.choice(["ios", "nxos", "iosxr", "asa"]), "ibl": ibl, "delims": rng.choice([["!"], ["!", "#"]]), "ac": rng.random() < 0.5,
                      "lines": lines, "ops": ops, "kind": "rnd"})
    # auto_commit off and NO commit in between: the seat-belt must stay engaged after every further edit,
    # whatever is inserted (the same text twice, at different places) until the final commit
    safe = ["insert", "append", "pop", "oins_before", "oins_after", "lins_after", "replace_text", "insert", "insert", "oins_after"]
    for t in range(nrand // 2):
        lines, ops = editgen.gen_history(rng, 8, 6, banner=(t % 4 == 0))
        pays = [rng.choice(editgen.PAYLOADS) for _ in range(2)]
        ops2 = []
        for o in ops:
            o = dict(o)
            o["k"] = rng.choice(safe)
            o["s"] = rng.choice(pays)
            ops2.append(o)
        cases.append({"syntax": rng.choice(["ios", "nxos", "asa"]), "ibl": False, "delims": ["!"], "ac": False, "nocommit": True,
                      "lines": lines, "ops": ops2, "kind": "dirty"})
    return cases


def run(c):
    return editgen.execute(c, tree=True)


def nontrivial(c, o):
    if o.get("fatal") or not o["steps"]:
        return None
    dirty = any(s["after"] and s["after"][2] == 1 for s in o["steps"])
    parents = [tuple(s["after"][1]) for s in o["steps"] if s["after"] and s["after"][1]]
    if dirty or len(set(parents)) > 1:
        return (tuple(op["k"] for op in c["ops"]), tuple(c["lines"]), c["ac"], c["ibl"], c["syntax"])
    return None


def describe(c, o):
    return {"lines": c["lines"], "syntax": c["syntax"], "auto_commit": c["ac"], "ignore_blank_lines": c["ibl"], "ops": c["ops"],
            "steps": [{"op": s["op"], "after": s["after"] if s["after"] else "raised", "broken": s.get("broken")} for s in o.get("steps", [])][:6],
            "notes": o.get("notes"), "fatal": o.get("fatal")}


STREAMS = [Stream("session", gen, run, lambda c, o: editgen.hist_lit(c, o, atf_as_insert=True),
                  "From Coq Require Import List NArith ZArith. Import ListNotations. Require Import CCP.Model.Parse CCP.Model.Session CCP.Corr.C06.",
                  "case06", "agree07", show="model_hist", nontrivial=nontrivial, describe=describe, shard=150)]
