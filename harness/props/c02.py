"""C02 — parent/child links follow the indentation rule."""
import itertools

from runner import Stream
import common

ID = "C02"
LEVEL = "proof"
PROPS = "Props/C02.vo"
MODEL_TARGETS = ["Corr/C02.vo"]
OBLIGATION_FILES = ["Props/C02.v"]
ANCHORS = [("ciscoconfparse2/ciscoconfparse2.py", "ConfigList." + m) for m in
           ("bootstrap", "_maintain_bootstrap_parent_cache", "_build_bootstrap_parent_child", "_add_child_to_parent")] + \
          [("ciscoconfparse2/ccp_abc.py", "BaseCfgLine." + m) for m in ("indent", "is_comment", "is_config_line")]
RULE = ("exhaustive: every sequence of length <= 4 (quick) / 5 (thorough) over 12 line symbols = indent 0..3 x {command, comment, whitespace-only, empty}; "
        "random: up to 60 lines, indentation up to 12 made of blanks, tabs and NBSP, custom comment delimiters; each config is parsed by the real code under "
        "ios/nxos/iosxr/asa x factory off/on (all variants must report identical links) and obj.parent / obj.children are compared with the model by vm_compute. "
        "non-trivial = contains a dedent followed by a re-indent, or a comment/blank between a parent and its child; distinct by the (indent, kind) pattern.")
EXHAUSTIVE = {"quick": True, "thorough": True}
TRUSTED = ["Coq 8.16.1 kernel incl. vm_compute (no native_compute)",
           "hand-written model coq/Model/Links.v of the bootstrap parent pass, tied to /repo by this correspondence (and AST fingerprints that escalate exploration)",
           "Lib/PyStr.is_space = Python str.isspace table (re-checked against the interpreter by the C09 table generator)",
           "correspondence driver harness/props/c02.py"]
ASSUMPTIONS = ["lines are outside banner/macro bodies (C03 covers those)", "comment delimiters are single characters"]
TECHNIQUE = "Coq proof by invariant over the line list (parent cache = indentation rule), unbounded; exhaustive + random vm_compute correspondence with the real parser"
LEVEL_TEXT = ("Theorems links_parent / links_children: for EVERY list of lines the cache-based pass of ConfigList.bootstrap assigns exactly the parent and child lists of the "
              "indentation rule (nearest preceding configuration line with strictly smaller indent; unindented lines are roots; comment exception), proved by an invariant on the "
              "parent cache, plus nearest_spec (the rule in the words of the property) and parent_before_child. The model is hand-written and tied to the code by exhaustive "
              "small-scope and random correspondence over all four syntaxes, factory on/off and custom comment delimiters.")
LEVEL_NOTE = ("Trusted: Coq kernel + vm_compute; the hand model of the four bootstrap helpers (not translated; tied by correspondence); the driver. "
              "Syntax/factory independence is a property of the model by construction (no such parameter) and is checked on the real code by parsing every case under all variants.")

SYNTAXES = ["ios", "nxos", "iosxr", "asa"]
SYMS = [(i, k) for i in range(4) for k in "xc"] + [(i, "w") for i in (1, 2, 3)] + [(0, "e")]


def _render(sym, delim="!"):
    i, k = sym
    return " " * i + {"x": "x", "c": delim, "w": "", "e": ""}[k]


def gen(rng, tier, escalate):
    cases = []
    maxlen = 5 if (tier == "thorough") else 4
    for n in range(1, maxlen + 1):
        for seq in itertools.product(SYMS, repeat=n):
            cases.append({"delims": ["!"], "lines": [_render(s) for s in seq], "kind": "exh"})
    nrand = 1500 * (4 if (tier == "thorough" or escalate) else 1)
    ws = [" ", " ", " ", "\t", " "]
    for t in range(nrand):
        delims = rng.choice([["!"], ["!"], ["#"], ["!", "#"], ["%", "!"], []])      # []: no line is a comment ('!' lines are commands)
        dd = delims or ["!"]
        n = rng.randint(1, 60 if t % 3 == 0 else 14)
        lines = []
        for i in range(n):
            ind = rng.choice([0, 0, 1, 1, 2, 2, 3, 4, 5, 8, 12])
            pad = "".join(rng.choice(ws) for _ in range(ind))
            k = rng.choice(["cmd", "cmd", "cmd", "cmt", "cmt2", "blank", "empty", "delim_inside"])
            body = {"cmd": "cmd%d a" % (i % 7), "cmt": dd[0] + " note", "cmt2": dd[-1], "blank": "", "empty": None,
                    "delim_inside": "x" + dd[0]}[k]
            lines.append("" if body is None else pad + body)
        cases.append({"delims": delims, "lines": lines, "kind": "rnd"})
    return cases


def _links(p):
    return ([(o.parent.linenum if o.parent is not o else None) for o in p.objs], [[c.linenum for c in o.children] for o in p.objs])


def run(c):
    from ciscoconfparse2 import CiscoConfParse
    base = None
    diffs = []
    for syn in SYNTAXES:
        for fac in (False, True):
            try:
                p = CiscoConfParse(list(c["lines"]), syntax=syn, factory=fac, comment_delimiters=list(c["delims"]))
                got = _links(p)
            except BaseException as e:
                if fac:
                    continue            # the beta factory may reject lines it cannot interpret (C01)
                got = "raised %s" % type(e).__name__
            if base is None:
                base = got
            elif got != base:
                diffs.append("%s/factory=%s differs" % (syn, fac))
    return {"links": base, "variants": diffs}


def lit(c, o):
    d = "[" + "; ".join(str(ord(x)) for x in c["delims"]) + "]%N"
    ls = "[" + "; ".join(common.strlit(l) for l in c["lines"]) + "]"
    if isinstance(o["links"], str) or o["variants"]:
        ps, cs = "[Some 99999]", "[]"          # forces a disagreement: raised, or variants differ
    else:
        ps = "[" + "; ".join("None" if x is None else "Some %d" % x for x in o["links"][0]) + "]"
        cs = "[" + "; ".join("[" + "; ".join(str(x) for x in k) + "]" for k in o["links"][1]) + "]"
    return "(%s, %s, %s, %s)" % (d, ls, ps, cs)


def nontrivial(c, o):
    pat = []
    for l in c["lines"]:
        st = l.lstrip()
        pat.append((len(l) - len(st), "e" if not st else ("c" if st[0] in c["delims"] else "x")))
    inds = [i for i, k in pat if k == "x"]
    dedent_reindent = any(inds[i] > inds[i + 1] < inds[i + 2] for i in range(len(inds) - 2)) if len(inds) >= 3 else False
    between = any(pat[i][1] != "x" and 0 < i < len(pat) - 1 for i in range(len(pat)))
    if dedent_reindent or between:
        return tuple(pat)
    return None


def describe(c, o):
    return {"lines": c["lines"], "comment_delimiters": c["delims"], "impl_parents": o["links"][0] if not isinstance(o["links"], str) else o["links"],
            "variants_disagreeing": o["variants"]}


STREAMS = [Stream("links", gen, run, lit,
                  "From Coq Require Import List NArith. Import ListNotations. Require Import CCP.Corr.C02.",
                  "case02", "agree02", show="model02", nontrivial=nontrivial, describe=describe, shard=400)]
