"""C09 — all input forms are equivalent and file save/load is the identity."""
import os
import tempfile

from runner import Stream
import common

ID = "C09"
LEVEL = "proof"
PROPS = "Props/C09.vo"
MODEL_TARGETS = ["Corr/C09.vo"]
OBLIGATION_FILES = ["Props/C09.v"]
ANCHORS = [("ciscoconfparse2/ciscoconfparse2.py", "CiscoConfParse.read_config"),
           ("ciscoconfparse2/ciscoconfparse2.py", "CiscoConfParse.read_config_file"),
           ("ciscoconfparse2/ciscoconfparse2.py", "CiscoConfParse.openargs"),
           ("ciscoconfparse2/ciscoconfparse2.py", "CiscoConfParse.save_as"),
           ("ciscoconfparse2/ciscoconfparse2.py", "CiscoConfParse.get_text")]
RULE = ("forms: a config is a list of (line, line end) pairs; the SAME config is handed to CiscoConfParse as list, tuple, str (lines joined by "
        "their line ends) and as a file holding the encoded str (latin-1 or utf-8; given as str path and as pathlib.Path); get_text() and the parent line numbers of every form are "
        "embedded in a Gallina literal and compared by vm_compute with Model/IO.v (fidelity) and with the property itself (list/tuple = the lines, "
        "str = text split at LF/CRLF/CR without a final empty line, file = text split at its line ends, equal texts => equal trees). "
        "Exhaustive: every sequence of <= 3 (quick) / 4 (thorough) lines over a 5-line alphabet x {LF,CRLF} x final line end present/absent; "
        "random: 2-12 lines, interior and trailing blank lines, mixed LF/CRLF, non-ASCII; malformed: VT/FF/FS/GS/RS/NEL/LS/PS inside lines (F11), "
        "lone CR, CR runs before LF, embedded LF in list elements, one-line and empty inputs. "
        "cycle: a file (arbitrary mix of LF/CRLF/CR/CRCRLF ends, with/without final end, trailing blank lines) or a list is loaded and saved "
        "1-6 times; after every cycle get_text() and the BYTES of the written file are compared with the model (which encodes its own output) "
        "and the byte strings / line lists of all cycles after the first save are compared with each other. "
        "non-trivial = at least 2 lines and one of: CRLF, blank line, final line end, non-ASCII; distinct by the exact (lines, line ends, encoding).")
EXHAUSTIVE = {"quick": True, "thorough": True}
TRUSTED = [
    "Coq 8.16.1 kernel incl. vm_compute",
    "hand-written model coq/Model/IO.v of read_config / read_config_file / openargs / save_as, pinned by the correspondence streams of harness/props/c09.py",
    "str.splitlines boundary table re-read from the running interpreter on every run (harness/gen_c09.py -> gen/TabC09.v; all 0x110000 code points probed); the proofs use only that LF and CR are boundaries (Props/C09.v C09_tables_as_modelled); the regex / newline literals of the source are emitted for information, their behaviour is pinned by the cycle stream",
    "Python codecs: decode(encode(text)) = text for latin-1 / utf-8 (the tie encodes the model's text in Gallina and compares file bytes)",
    "os.linesep == '\\n' (POSIX text-mode write is the identity); re.split(r'\\r*\\n') and open(newline=None) as modelled (pinned by the cycle stream)",
    "get_text() of a parsed list is the list (property C01) - re-observed here on every case",
]
ASSUMPTIONS = ["lines contain no line-break characters (for the list/tuple forms a 'line' is an element without CR/LF)",
               "string form: the text has at least two lines (a one-line str is a file path by design)",
               "F11 (known finding): a str containing VT/FF/FS/GS/RS/NEL/LS/PS is split there by str.splitlines(), a file is not",
               "POSIX line separator"]

EXOTIC = ["\x0b", "\x0c", "\x1c", "\x1d", "\x1e", "\x85", " ", " "]
ALPHA = ["hostname r1", "interface Ethernet1/1", " ip address 10.0.0.1 255.255.255.0", "  no shutdown", "!", " !", "", " ", "\t",
         "router bgp 65000", " neighbor 1.2.3.4 remote-as 1", "banner motd ^", "^", "line {x} }}y{{", "a", " b", "  c", "end",
         "description café üß", " déjà vu  x", "snmp € 日本", "name \U0001f600 z", "x\\r\\n literal"]
SMALL = ["a", " b", "", "c d", " "]


def _s(x):
    return common.strlit(x)


# ------------------------------------------------------------------------------------------ forms
def _mk(lines, ends, kind):
    return {"lines": list(lines), "ends": list(ends), "kind": kind}


def gen_forms(rng, tier, escalate):
    big = tier == "thorough" or escalate
    cases = []
    # exhaustive small bound
    import itertools
    maxn = 4 if big else 3
    for n in range(0, maxn + 1):
        for ls in itertools.product(SMALL, repeat=n):
            for e in ("\n", "\r\n"):
                for final in (True, False):
                    if n == 0 and (not final or e == "\r\n"):
                        continue
                    ends = [e] * n
                    if n and not final:
                        ends[-1] = ""
                    cases.append(_mk(ls, ends, "exhaustive"))
    # structured random
    for _ in range(1500 * (4 if big else 1)):
        n = rng.randint(2, 12)
        ls = []
        for i in range(n):
            r = rng.random()
            if r < 0.15:
                ls.append("")
            elif r < 0.2:
                ls.append(rng.choice([" ", "  ", "\t"]))
            else:
                ls.append(rng.choice(ALPHA))
        for _k in range(rng.choice([0, 0, 0, 1, 2, 3])):
            ls.append("")                      # trailing blank lines
        mode = rng.choice(["lf", "crlf", "mixed"])
        ends = [{"lf": "\n", "crlf": "\r\n"}.get(mode) or rng.choice(["\n", "\r\n"]) for _ in ls]
        if rng.random() < 0.5 and ls[-1] != "":
            ends[-1] = ""
        cases.append(_mk(ls, ends, "random"))
    # malformed / outside the quantifier
    for _ in range(500 * (4 if big else 1)):
        n = rng.randint(0, 6)
        ls = []
        for i in range(n):
            w = rng.choice(ALPHA[:8] + SMALL)
            r = rng.random()
            if r < 0.35:
                p = rng.randint(0, len(w))
                w = w[:p] + rng.choice(EXOTIC) + w[p:]
            elif r < 0.45:
                p = rng.randint(0, len(w))
                w = w[:p] + rng.choice(["\r", "\n", "\r\r", "\r\n"]) + w[p:]
            ls.append(w)
        ends = [rng.choice(["\n", "\r\n", "\r", "\r\r\n", "\n", "\n"]) for _ in ls]
        if ls and rng.random() < 0.4:
            ends[-1] = ""
        cases.append(_mk(ls, ends, "malformed"))
    for ls, ends in [([], []), (["a"], [""]), (["a"], ["\n"]), ([""], ["\n"]), (["", ""], ["\n", "\n"]), (["a b"], ["\r\n"]),
                     (["a\x0bb", "c"], ["\n", ""]), (["a\x0bb"], [""]), (["a", "b"], ["\r", "\r"]), (["a", "", "b"], ["\r", "\n", ""]),
                     (["a", "b", ""], ["\n", "\n", ""]), (["a", "b", "", ""], ["\r\n", "\r\n", "\r\n", ""])]:
        cases.append(_mk(ls, ends, "malformed"))
    return cases


def _observe(make):
    from ciscoconfparse2 import CiscoConfParse  # noqa: F401
    try:
        p = make()
        return [[o.text for o in p.objs] if False else p.get_text(), [o.parent.linenum for o in p.objs]]
    except BaseException:
        return None


def _enc_for(text, pick):
    if all(ord(c) < 256 for c in text) and pick:
        return "latin-1"
    return "utf-8"


def run_forms(case):
    from ciscoconfparse2 import CiscoConfParse
    lines, ends = case["lines"], case["ends"]
    text = "".join(l + e for l, e in zip(lines, ends))
    enc = _enc_for(text, len(text) % 2 == 0)
    old = os.getcwd()
    with tempfile.TemporaryDirectory(prefix="ccp_c09_") as d:
        os.chdir(d)
        try:
            out = {"list": _observe(lambda: CiscoConfParse(list(lines))),
                   "tuple": _observe(lambda: CiscoConfParse(tuple(lines))),
                   "str": _observe(lambda: CiscoConfParse(text))}
            path = os.path.join(d, "sub", "config.cfg")
            os.mkdir(os.path.join(d, "sub"))
            with open(path, "wb") as f:
                f.write(text.encode(enc))
            out["file"] = _observe(lambda: CiscoConfParse(path, encoding=enc))
            import pathlib
            out["path"] = _observe(lambda: CiscoConfParse(pathlib.Path(path), encoding=enc))
            out["enc"] = enc
        finally:
            os.chdir(old)
    return out


def _obslit(o):
    if o is None:
        return "None"
    texts, parents = o
    return "(Some (%s, %s))" % (common.listlit([_s(t) for t in texts]),
                                ("[" + "; ".join(str(p) for p in parents) + "]%Z") if parents else "[]")


def lit_forms(c, o):
    pairs = common.listlit(["(%s, %s)" % (_s(l), _s(e)) for l, e in zip(c["lines"], c["ends"])])
    return "(%s, %s, %s, %s, %s, %s)" % (pairs, _obslit(o["list"]), _obslit(o["tuple"]), _obslit(o["str"]), _obslit(o["file"]), _obslit(o["path"]))


def _text(c):
    return "".join(l + e for l, e in zip(c["lines"], c["ends"]))


def nontrivial_forms(c, o):
    if c["kind"] == "malformed" or len(c["lines"]) < 2:
        return None
    t = _text(c)
    if "\r\n" in t or "" in c["lines"] or t.endswith("\n") or any(ord(ch) > 127 for ch in t):
        return (tuple(c["lines"]), tuple(c["ends"]), o["enc"])
    return None


def _py_split(text):
    return text.replace("\r\n", "\n").replace("\r", "\n").split("\n")


def known_forms(c, o, kf):
    """F11: the str form is split by str.splitlines() at VT/FF/FS/GS/RS/NEL/LS/PS; every other form is right."""
    if not any(k["id"] == "F11" for k in kf):
        return None
    t = _text(c)
    if not any(x in t for x in EXOTIC):
        return None
    sl = t.splitlines()
    want = [sl] if len(sl) > 1 else []
    if (o["str"] is not None and [o["str"][0]] == want and o["list"] is not None and o["list"][0] == c["lines"]
            and o["tuple"] is not None and o["tuple"][0] == c["lines"] and o["file"] is not None and o["file"][0] == _py_split(t)
            and o["path"] is not None and o["path"][0] == _py_split(t)):
        return "F11"
    return None


def describe_forms(c, o):
    return {"lines": c["lines"], "line_ends": c["ends"], "kind": c["kind"],
            "get_text": {k: (v[0] if v else "raised") for k, v in o.items() if k != "enc"}, "file_encoding": o["enc"]}


# ------------------------------------------------------------------------------------------ cycles
def gen_cycle(rng, tier, escalate):
    big = tier == "thorough" or escalate
    cases = []
    fixed = ["", "\n", "a", "a\n", "a\n\n", "a\n\n\n", "\n\n", "a\r\n", "a\r", "a\r\r\n", "\r", "\r\n", "\n\r", "a\nb", "a\n b\n\nc\n",
             "a\r\n b\r\r\n\r\nc\r\n\r", "a\r\rb\n\rc", "é\nü\n", "x\x0by\x0cz\x85\n", "café\r\n\r\n"]
    for t in fixed:
        for n in (1, 2, 3, 6):
            for pick in (True, False):
                cases.append({"start": "file", "content": t, "enc": _enc_for(t, pick), "n": n})
    for ls in [[], [""], ["", ""], ["a"], ["a", ""], ["a", "", ""], ["a", " b", "", "c"], ["é", "", ""], ["a\rb"], ["a\nb", "c"], ["a\r"]]:
        for n in (1, 3):
            cases.append({"start": "list", "lines": ls, "enc": "utf-8", "n": n})
    # all texts over a 4-symbol alphabet up to length 5 (quick) / 6 (thorough)
    import itertools
    for n in range(0, (6 if big else 5) + 1):
        for t in itertools.product("a \r\n", repeat=n):
            cases.append({"start": "file", "content": "".join(t), "enc": "utf-8", "n": 2})
    for _ in range(1200 * (4 if big else 1)):
        nl = rng.randint(0, 10)
        ls = []
        for i in range(nl):
            r = rng.random()
            ls.append("" if r < 0.2 else rng.choice(ALPHA))
        endc = rng.choice([["\n"], ["\r\n"], ["\n", "\r\n"], ["\n", "\r\n", "\r", "\r\r\n"]])
        t = "".join(l + rng.choice(endc) for l in ls)
        if ls and rng.random() < 0.4:
            t = t.rstrip("\r\n") if rng.random() < 0.5 else t[:-1]
        t += rng.choice(["", "", "", "\n", "\n\n", "\r\n\r\n"])
        pick = rng.random() < 0.5
        cases.append({"start": "file", "content": t, "enc": _enc_for(t, pick), "n": rng.randint(1, 6)})
    for _ in range(300 * (4 if big else 1)):
        nl = rng.randint(0, 8)
        ls = ["" if rng.random() < 0.25 else rng.choice(ALPHA) for _i in range(nl)] + [""] * rng.choice([0, 0, 1, 2])
        if rng.random() < 0.1 and ls:
            i = rng.randrange(len(ls))
            ls[i] = ls[i] + rng.choice(["\r", "\n", "\r\nx"])
        t = "".join(ls)
        cases.append({"start": "list", "lines": ls, "enc": _enc_for(t, rng.random() < 0.5), "n": rng.randint(1, 6)})
    return cases


def run_cycle(case):
    from ciscoconfparse2 import CiscoConfParse
    enc = case["enc"]
    with tempfile.TemporaryDirectory(prefix="ccp_c09_") as d:
        path = os.path.join(d, "config.cfg")
        b0 = None
        try:
            if case["start"] == "file":
                with open(path, "wb") as f:
                    f.write(case["content"].encode(enc))
            else:
                CiscoConfParse(list(case["lines"]), encoding=enc).save_as(path)
                b0 = list(open(path, "rb").read())
            obs = []
            for _ in range(case["n"]):
                p = CiscoConfParse(path, encoding=enc)
                t = p.get_text()
                p.save_as(path)
                obs.append([t, list(open(path, "rb").read())])
        except BaseException as e:
            return {"b0": b0, "obs": None, "error": type(e).__name__}
    return {"b0": b0, "obs": obs}


def _blit(b):
    return ("[" + "; ".join(str(x) for x in b) + "]%N") if b else "[]"


def lit_cycle(c, o):
    enc = 0 if c["enc"] == "latin-1" else 1
    start = "(inl %s)" % _s(c["content"]) if c["start"] == "file" else "(inr %s)" % common.listlit([_s(l) for l in c["lines"]])
    b0 = "None" if o["b0"] is None else "(Some %s)" % _blit(o["b0"])
    if o["obs"] is None:
        obs = "None"
    else:
        obs = "(Some %s)" % common.listlit(["(%s, %s)" % (common.listlit([_s(t) for t in ts]), _blit(b)) for ts, b in o["obs"]])
    return "(%d, %s, %s, %s)" % (enc, start, b0, obs)


def nontrivial_cycle(c, o):
    if o["obs"] is None:
        return None
    t = c["content"] if c["start"] == "file" else "\n".join(c["lines"])
    key = (c["start"], t, c["enc"], c["n"])
    if c["start"] == "file":
        return key if (c["n"] >= 2 and "\n" in t) else None
    return key if len(c["lines"]) >= 2 and not any(("\r" in l or "\n" in l) for l in c["lines"]) else None


def describe_cycle(c, o):
    d = {k: c[k] for k in c}
    d["observed"] = None if o["obs"] is None else [{"get_text": t, "file_bytes": bytes(b).decode("latin-1")} for t, b in o["obs"]]
    if o.get("error"):
        d["error"] = o["error"]
    return d


PRE = ("From Coq Require Import NArith ZArith List. Import ListNotations. "
       "Require Import CCP.Lib.PyStr CCP.Lib.Res CCP.Model.IO CCP.Corr.C09.")
STREAMS = [
    Stream("forms", gen_forms, run_forms, lit_forms, preamble=PRE, ctype="case09f", agree="agree09f", show="show09f",
           nontrivial=nontrivial_forms, known=known_forms, describe=describe_forms, shard=200,
           rule="list / tuple / str / file forms of one config: fidelity to Model/IO.v and the property's own demands"),
    Stream("cycle", gen_cycle, run_cycle, lit_cycle, preamble=PRE, ctype="case09c", agree="agree09c", show="show09c",
           nontrivial=nontrivial_cycle, describe=describe_cycle, shard=150,
           rule="1-6 load/save cycles from a file or a list: get_text() and file bytes per cycle"),
]

TECHNIQUE = ("Coq proofs (unbounded, all code-point lists) about a hand-written model of read_config/read_config_file/save_as; "
             "vm_compute correspondence of the real constructor and save_as (texts, trees, file bytes) incl. an exhaustive small bound")
LEVEL_TEXT = ("Machine-checked theorems (Coq 8.16.1, closed under the global context): list = tuple = LF/CRLF-joined string (with or without a final "
              "line end) for every list of >= 2 break-free lines; a file yields its text split at LF/CRLF/CR, i.e. the lines plus one empty element "
              "when the file ends with a line end; string form = file form minus that element whenever the text has none of the eight extra "
              "str.splitlines separators (F11 refuted otherwise); for EVERY file content and every break-free list, from the first save on all "
              "saved byte strings are equal and all loaded line lists are equal, for any number of cycles.")
LEVEL_NOTE = ("The theorems are about Model/IO.v, tied to the source by the correspondence (file bytes compared, the model's text is encoded to "
              "latin-1/utf-8 inside Coq) and by tables re-read on every run; codecs, os.linesep and the regex engine are trusted as modelled. "
              "F11 stays a known finding and is reported from the malformed stream only.")
