"""C19 — Typed IOS interface/route models report what the text says; factory transparent (partial claim)."""
import ipaddress
import zlib

from runner import Stream
import common

ID = "C19"
LEVEL = "proof"
PROPS = "Props/C19.vo"
MODEL_TARGETS = ["Corr/C19.vo"]
OBLIGATION_FILES = ["Props/C19.v"]
ANCHORS = [("ciscoconfparse2/ciscoconfparse2.py", "config_line_factory"),
           ("ciscoconfparse2/models_cisco.py", "IOSCfgLine.is_object_for"), ("ciscoconfparse2/models_cisco.py", "IOSCfgLine.is_object_for_interface"),
           ("ciscoconfparse2/models_cisco.py", "IOSCfgLine.is_intf"), ("ciscoconfparse2/models_cisco.py", "IOSCfgLine.portchannel_number"),
           ("ciscoconfparse2/models_cisco.py", "IOSIntfLine.is_object_for"), ("ciscoconfparse2/models_cisco.py", "IOSIntfGlobal.is_object_for"),
           ("ciscoconfparse2/models_cisco.py", "IOSAccessLine.is_object_for"), ("ciscoconfparse2/models_cisco.py", "IOSRouteLine.is_object_for"),
           ("ciscoconfparse2/models_cisco.py", "IOSRouteLine.__init__")] + \
          [("ciscoconfparse2/models_cisco.py", "BaseIOSIntfLine." + m) for m in (
              "name", "port_type", "ordinal_list", "cisco_interface_object", "description", "ipv4_addr_object", "ip_secondary_addresses",
              "ip_secondary_networks", "manual_mtu", "is_shutdown", "vrf", "ipv4_addr", "ipv4_netmask", "ipv4_masklength",
              "is_switchport", "has_manual_switch_access", "access_vlan", "trunk_vlans_allowed", "native_vlan")] + \
          [("ciscoconfparse2/models_cisco.py", "IOSRouteLine." + m) for m in (
              "vrf", "network", "netmask", "masklen", "network_object", "next_hop_interface", "next_hop_addr", "admin_distance",
              "route_name", "tracking_object_name", "tag")] + \
          [("ciscoconfparse2/ccp_abc.py", "BaseCfgLine.re_match_iter_typed"), ("ciscoconfparse2/ccp_abc.py", "BaseCfgLine.re_match_typed"),
           ("ciscoconfparse2/ccp_abc.py", "BaseCfgLine.re_match")]
RULE = ("stream intf: interface stanzas rendered from a structured description (name shape: 12 port types x 1..3 slash numbers x sub-interface x channel x blank "
        "after the type x trailing keyword; each of description, address (static/dhcp/negotiated), 0..2 secondaries, vrf (with/without `ip`), mtu, shutdown, "
        "switchport, mode, access/native vlan, allowed-vlan base (all/none/list) with add/remove/except lists, channel-group present or absent; values at range "
        "boundaries), attribute lines permuted, unrelated and look-alike lines interleaved, child indent 1..3, sometimes nested grandchildren carrying look-alike "
        "lines; parsed with CiscoConfParse(factory=True); 17 accessors of the real IOSIntfLine compared inside Coq with the token-level model applied to the "
        "object's own text and all_children, and with the described values. stream route: `ip route` lines from (vrf?, prefix, mask over all 33 lengths, "
        "interface?, next hop?, distance?, name?, permanent|track?, tag?), 10 accessors of IOSRouteLine vs model vs description. stream transp: configs in all five "
        "syntaxes (pool of stanzas, routes, globals, comments, blank lines; brace form for junos) parsed with factory off and on; per line text, parent and children "
        "compared. non-trivial = at least 4 attributes present (intf), at least 2 optional fields (route), at least one line whose class changes under the factory (transp).")
EXHAUSTIVE = {"quick": False, "thorough": False}
TRUSTED = [
    "Coq 8.16.1 kernel incl. vm_compute",
    "hand-written token/character-level accessor models coq/Model/IntfCfg.v (regular expressions written down as item sequences with a deterministic matcher; Python's re is not modelled)",
    "the stanza/route renderer and the expected-value computation in harness/props/c19.py",
    "correspondence driver harness/props/c19.py and the Gallina literal emitter",
    "transparency clause: differential test of the real parser with factory on vs off (test, not proof)",
]
ASSUMPTIONS = ["fields of generated lines are separated by single blanks and carry no trailing whitespace (the regular expressions are not end-tolerant)",
               "interface stanzas are top-level (parent of the interface line is itself), names have at most three slash-separated numbers",
               "addresses are valid dotted quads, masks are contiguous netmasks, VLAN lists are comma/dash lists of 1..4094"]
TECHNIQUE = ("Coq proofs about a token-level model of the accessors (render/parse round trip for every stanza containing the attribute line, default when absent); "
             "vm_compute correspondence of the real IOSIntfLine/IOSRouteLine accessors against the model and the generating description; differential factory on/off test")
LEVEL_TEXT = ("Machine-checked theorems (Coq 8.16.1, closed under the global context) about the token-level accessor model: for every stanza that contains the rendered attribute "
              "line (anywhere among arbitrarily many other lines that are not of that attribute) the accessor returns the described value, and the documented default when no "
              "line of that attribute is present; route lines rendered from a description parse back to the description. PARTIAL: the Python regular expressions are not "
              "translated; the model is tied to the real accessors by correspondence only; factory transparency is tested on the real code, not proved.")
LEVEL_NOTE = ("Partial by design. Proved (model level): accessor round trips and defaults for the modelled accessors over ALL stanzas/values. Tested only: (1) that the real "
              "regex-based accessors agree with the model (correspondence on generated stanzas, compared inside Coq, plus agreement with the generating description); a regex slip "
              "in the Python source is caught only by this tie; (2) factory transparency (texts, parents, children identical with factory on/off) for all five syntaxes on configs the "
              "factory accepts. Trusted: Coq kernel + vm_compute, the hand model, the generator/renderer, the driver.")

# --------------------------------------------------------------------------- helpers
MASKS = [str(ipaddress.IPv4Network("0.0.0.0/%d" % n).netmask) for n in range(33)]
PORT_TYPES = ["GigabitEthernet", "FastEthernet", "TenGigabitEthernet", "Serial", "Ethernet", "Loopback", "Vlan", "Port-channel",
              "Tunnel", "ATM", "Gi", "Te"]
UNRELATED = ["no ip redirects", "no ip proxy-arp", "spanning-tree portfast", "load-interval 30", "no cdp enable", "service-policy input MARK",
             "bandwidth 1000", "ip mtu 1400", "mpls mtu 1508", "ipv6 address 2001:db8::1/64", "ip ospf cost 10", "duplex full", "speed 1000",
             "storm-control broadcast level 5.00", "ip helper-address 10.9.9.9", "no mop enabled", "carrier-delay msec 50", "logging event link-status",
             "xconnect 10.0.0.9 55 encapsulation mpls", "standby 1 ip 10.0.0.254", "hold-queue 100 in", "ipv6 mtu 1300", "encapsulation dot1Q 5",
             "ip address-hint", "no shutdown", "no switchport", "no mtu", "vrf member BLUE", "channel-protocol lacp", "ip access-group 101 in",
             "description-extra x", "mtuX 5"]
NEST_PARENTS = ["service instance 1 ethernet", "pvc 0/100", "ip vrf receive X"]
NEST_LOOKALIKE = ["description nested", "mtu 1234", "shutdown", "ip address 9.9.9.9 255.255.255.0", "ip address 9.9.9.8 255.255.255.0 secondary",
                  "vrf forwarding NESTED", "channel-group 9 mode on", "switchport access vlan 99", "encapsulation dot1q 7", "vbr-nrt 704 704"]


def rnd_ip(rng):
    edge = rng.random()
    if edge < 0.1:
        return rng.choice(["0.0.0.1", "255.255.255.254", "1.0.0.0", "223.255.255.255", "10.0.0.0", "192.168.255.255"])
    return "%d.%d.%d.%d" % (rng.randint(1, 223), rng.randint(0, 255), rng.randint(0, 255), rng.randint(0, 255))


def rnd_vlan(rng):
    return rng.choice([1, 2, 10, 99, 100, 1001, 1002, 4093, 4094, rng.randint(1, 4094)])


def rnd_vlan_list(rng):
    parts, vals = [], set()
    for _ in range(rng.randint(1, 4)):
        a = rnd_vlan(rng)
        if rng.random() < 0.5:
            b = min(4094, a + rng.choice([0, 1, 2, 9, 100, 3000]))
            parts.append("%d-%d" % (a, b))
            vals |= set(range(a, b + 1))
        else:
            parts.append("%d" % a)
            vals.add(a)
    return ",".join(parts), vals


def gen_intf_desc(rng):
    d = {}
    t = rng.choice(PORT_TYPES)
    nnum = rng.choice([1, 2, 2, 3])
    if t in ("Loopback", "Vlan", "Port-channel", "Tunnel"):
        nnum = 1
    nums = [rng.choice([0, 1, 2, 7, 10, 48, rng.randint(0, 99)]) for _ in range(nnum)]
    if t == "Vlan":
        nums = [rnd_vlan(rng)]
    sub = rng.choice([None, None, 1, 100, 4000, rng.randint(1, 4094)]) if t not in ("Loopback", "Vlan") else None
    chan = rng.choice([None, 0, 15, 23]) if t == "Serial" and rng.random() < 0.4 else None
    blank = rng.random() < 0.12
    kw = rng.choice(["l2transport", "point-to-point", "multipoint"]) if (sub is not None and rng.random() < 0.3) else None
    numtxt = "/".join(str(n) for n in nums)
    if chan is not None:
        numtxt += ":%d" % chan
    if sub is not None:
        numtxt += ".%d" % sub
    words = ([t, numtxt] if blank else [t + numtxt]) + ([kw] if kw else [])
    d["name_words"] = words
    d["port_type"] = t
    slot = card = None
    if nnum == 2:
        slot = nums[0]
    elif nnum == 3:
        slot, card = nums[0], nums[1]
    d["ordinal"] = [slot if slot is not None else -1, card if card is not None else -1, nums[-1], sub if sub is not None else -1,
                    chan if chan is not None else -1, -1]
    p = lambda q: rng.random() < q
    d["description"] = rng.choice(["uplink to core", "x", "mtu 5 shutdown", "a  b   c", "description", "** LAN **", "ip address 1.1.1.1 255.0.0.0",
                                   "Ünïcode é", "vrf forwarding FAKE"]) if p(0.55) else None
    r = rng.random()
    if r < 0.5:
        d["addr"] = (rnd_ip(rng), rng.choice(MASKS))
    elif r < 0.58:
        d["addr"] = "dhcp"
    elif r < 0.64:
        d["addr"] = "negotiated"
    else:
        d["addr"] = None
    d["secs"] = [(rnd_ip(rng), rng.choice(MASKS)) for _ in range(rng.choice([0, 0, 0, 1, 2]))] if isinstance(d["addr"], tuple) else []
    d["vrf"] = (p(0.5), rng.choice(["RED", "mgmt-vrf", "A", "Cust_1:100"])) if p(0.4) else None
    d["mtu"] = rng.choice([64, 68, 1500, 9000, 9216, 0, 65535, rng.randint(64, 9216)]) if p(0.45) else None
    d["shutdown"] = p(0.4)
    d["switchport"] = p(0.3)
    d["mode"] = rng.choice(["access", "trunk"]) if p(0.35) else None
    d["access_vlan"] = rnd_vlan(rng) if p(0.35) else None
    d["native_vlan"] = rnd_vlan(rng) if p(0.3) else None
    d["allowed"] = None
    if p(0.4):
        r = rng.random()
        d["allowed"] = "all" if r < 0.15 else ("none" if r < 0.3 else rnd_vlan_list(rng))
    d["adds"] = [rnd_vlan_list(rng) for _ in range(rng.choice([0, 0, 1, 2]))] if p(0.35) else []
    d["removes"] = [rnd_vlan_list(rng) for _ in range(rng.choice([0, 1, 1, 2]))] if p(0.3) else []
    d["excepts"] = [rnd_vlan_list(rng)] if p(0.15) else []
    if isinstance(d["allowed"], tuple) and p(0.45):
        # boundary-correlated stanza: the added list touches / overlaps the ends of what is allowed so far, and the
        # removed values are the shared boundary values (set arithmetic must not keep a second copy of them)
        cur = set(d["allowed"][1])
        lo, hi = min(cur), max(cur)
        adds = []
        for _ in range(rng.choice([1, 1, 2])):
            a = rng.choice([hi, hi, lo, max(1, hi - 1), min(4094, hi + 1)])
            b = min(4094, a + rng.choice([0, 1, 5, 10]))
            adds.append(("%d-%d" % (a, b) if b > a else "%d" % a, set(range(a, b + 1))))
            cur |= adds[-1][1]
            hi = max(cur)
        d["adds"] = adds
        bvals = sorted({lo, max(d["allowed"][1]), min(adds[0][1]), max(adds[-1][1])})
        pick = rng.sample(bvals, rng.randint(1, len(bvals)))
        d["removes"] = [(",".join(str(v) for v in sorted(pick)), set(pick))]
        d["excepts"] = []
    d["channel"] = (rng.choice([1, 2, 48, 255, rng.randint(1, 4096)]), rng.choice(["active", "on", "passive", "desirable"])) if p(0.3) else None
    return d


def attr_lines(d):
    out = []
    if d["description"] is not None:
        out.append("description " + d["description"])
    if isinstance(d["addr"], tuple):
        out.append("ip address %s %s" % d["addr"])
    elif d["addr"]:
        out.append("ip address " + d["addr"])
    for a, m in d["secs"]:
        out.append("ip address %s %s secondary" % (a, m))
    if d["vrf"]:
        out.append(("ip " if d["vrf"][0] else "") + "vrf forwarding " + d["vrf"][1])
    if d["mtu"] is not None:
        out.append("mtu %d" % d["mtu"])
    if d["shutdown"]:
        out.append("shutdown")
    if d["switchport"]:
        out.append("switchport")
    if d["mode"]:
        out.append("switchport mode " + d["mode"])
    if d["access_vlan"] is not None:
        out.append("switchport access vlan %d" % d["access_vlan"])
    if d["native_vlan"] is not None:
        out.append("switchport trunk native vlan %d" % d["native_vlan"])
    if d["allowed"] is not None:
        out.append("switchport trunk allowed vlan " + (d["allowed"] if isinstance(d["allowed"], str) else d["allowed"][0]))
    for t, _ in d["adds"]:
        out.append("switchport trunk allowed vlan add " + t)
    for t, _ in d["removes"]:
        out.append("switchport trunk allowed vlan remove " + t)
    for t, _ in d["excepts"]:
        out.append("switchport trunk allowed vlan except " + t)
    if d["channel"]:
        out.append("channel-group %d mode %s" % d["channel"])
    return out


def expected_intf(d):
    is_sw = bool(d["switchport"] or d["mode"] or d["access_vlan"] is not None or d["native_vlan"] is not None or d["allowed"] is not None
                 or d["adds"] or d["removes"] or d["excepts"])
    static = isinstance(d["addr"], tuple)
    if is_sw and d["mode"] != "access":
        if d["allowed"] is None or d["allowed"] == "all":
            s = set(range(1, 4095))
        elif d["allowed"] == "none":
            s = set()
        else:
            s = set(d["allowed"][1])
        for _, v in d["adds"]:
            s |= v
        for _, v in d["excepts"] + d["removes"]:
            s -= v
    else:
        s = set()
    return {
        "name": " ".join(d["name_words"]), "port_type": d["port_type"], "ordinal": d["ordinal"],
        "description": d["description"] or "", "ipv4_addr": d["addr"][0] if static else "", "ipv4_netmask": d["addr"][1] if static else "",
        "masklen": MASKS.index(d["addr"][1]) if static else -1,
        "secs": sorted({(a, MASKS.index(m)) for a, m in d["secs"]}),
        "vrf": d["vrf"][1] if d["vrf"] else "", "mtu": d["mtu"] if d["mtu"] is not None else -1, "shutdown": bool(d["shutdown"]),
        "is_switchport": is_sw, "access_vlan": d["access_vlan"] if d["access_vlan"] is not None else (1 if is_sw else -1),
        "native_vlan": d["native_vlan"] if d["native_vlan"] is not None else (1 if is_sw else -1),
        "trunk": sum(1 << v for v in s), "portchannel": d["channel"][0] if d["channel"] else -1,
    }


def gen_intf(rng, tier, escalate):
    n = 2000 * (4 if (tier == "thorough" or escalate) else 1)
    cases = []
    for _ in range(n):
        d = gen_intf_desc(rng)
        lines = attr_lines(d)
        rng.shuffle(lines)
        # the order of allowed/add/remove lines is irrelevant for the set; keep the permutation
        for _ in range(rng.choice([0, 1, 2, 3, 5])):
            lines.insert(rng.randrange(len(lines) + 1), rng.choice(UNRELATED))
        ind = rng.choice([1, 1, 1, 2, 3])
        body, nested = [], False
        for l in lines:
            body.append(" " * ind + l)
        if rng.random() < 0.15:
            pos = rng.randrange(len(body) + 1)
            block = [" " * ind + rng.choice(NEST_PARENTS)] + [" " * (ind + rng.choice([1, 2])) + rng.choice(NEST_LOOKALIKE) for _ in range(rng.randint(1, 3))]
            body[pos:pos] = block
            nested = True
        pre = rng.choice([[], [], ["hostname r1"], ["!", "interface Loopback99", " description other", " mtu 1111", "!"]])
        post = rng.choice([[], ["!"], ["!", "interface Vlan999", " shutdown", " ip address 8.8.8.8 255.255.255.255"], ["ip route 0.0.0.0 0.0.0.0 10.0.0.1"]])
        hdr = "interface " + " ".join(d["name_words"])
        cases.append({"pre": pre, "hdr": hdr, "body": body, "post": post, "expected": None if nested else expected_intf(d),
                      "nattr": len(attr_lines(d))})
    return cases


INTF_ACCESSORS = ["name", "port_type", "ordinal_list", "description", "ipv4_addr", "ipv4_netmask", "ipv4_masklength", "vrf", "manual_mtu",
                  "is_shutdown", "is_switchport", "access_vlan", "native_vlan", "portchannel_number"]


def run_intf(case):
    from ciscoconfparse2 import CiscoConfParse
    cfg = case["pre"] + [case["hdr"]] + case["body"] + case["post"]
    try:
        p = CiscoConfParse(cfg, syntax="ios", factory=True)
        o = p.objs[len(case["pre"])]
    except BaseException as e:
        return {"parse_raised": type(e).__name__}
    out = {"cls": type(o).__name__, "hdr": o.text, "desc": [[any(c is k for k in o.children), c.text] for c in o.all_children]}
    for a in INTF_ACCESSORS:
        try:
            v = getattr(o, a)
            out[a] = list(v) if isinstance(v, tuple) else v
        except BaseException as e:
            out[a] = {"raised": type(e).__name__}
    try:
        addrs = sorted(o.ip_secondary_addresses)
        nets = sorted(o.ip_secondary_networks)
        # networks are "<address>/<len>"; pair them up by address
        lens = {}
        for x in nets:
            a, l = x.split("/")
            lens.setdefault(a, set()).add(int(l))
        out["secs"] = sorted([a, l] for a in addrs for l in sorted(lens.get(a, {-99})))
        if set(lens) != set(addrs):
            out["secs"] = {"raised": "addresses and networks disagree"}
    except BaseException as e:
        out["secs"] = {"raised": type(e).__name__}
    try:
        v = o.trunk_vlans_allowed
        out["trunk"] = sum(1 << int(x) for x in set(v.as_list()))
    except BaseException as e:
        out["trunk"] = {"raised": type(e).__name__}
    return out


def zl(v):
    return "(%d)%%Z" % v


def _oz(v):
    if isinstance(v, dict) or v is None or isinstance(v, bool) or not isinstance(v, int):
        return "None"
    return "(Some %s)" % zl(v)


def _str(v):
    return common.strlit(v) if isinstance(v, str) else common.strlit("\x00raised")


def _obs_lit(o, key=lambda k: k):
    g = lambda k: o[key(k)]
    ordl = g("ordinal_list") if "ordinal_list" in o else g("ordinal")
    ordlit = "None" if isinstance(ordl, dict) else "(Some %s)" % common.listlit([zl(x) for x in ordl])
    secs = o["secs"]
    secl = "None" if isinstance(secs, dict) else "(Some %s)" % common.listlit(["(%s, %s)" % (common.strlit(a), zl(l)) for a, l in secs])
    tr = o["trunk"]
    trl = "None" if isinstance(tr, dict) else "(Some %s%%N)" % (hex(tr) if tr >= (1 << 31) else str(tr))
    sh, sw = g("is_shutdown"), g("is_switchport")
    bl = lambda b: "true" if b is True else ("false" if b is False else "false")
    return "((%s, %s, %s), (%s, %s, %s, %s, %s), (%s, %s, %s), (%s, %s, %s, %s, %s))" % (
        _str(g("name")), _str(g("port_type")), ordlit,
        _str(g("description")), _str(g("ipv4_addr")), _str(g("ipv4_netmask")), _oz(g("ipv4_masklength")), secl,
        _str(g("vrf")), _oz(g("manual_mtu")), bl(sh),
        bl(sw), _oz(g("access_vlan")), _oz(g("native_vlan")), trl, _oz(g("portchannel_number")))


_EXP_KEYS = {"ordinal_list": "ordinal", "ipv4_masklength": "masklen", "manual_mtu": "mtu", "is_shutdown": "shutdown", "portchannel_number": "portchannel"}
_ALL_KEYS = INTF_ACCESSORS + ["secs", "trunk"]


def exp_mismatch(c, o):
    """accessor names whose real value differs from the value in the generating description"""
    e = c.get("expected")
    if e is None:
        return []
    bad = []
    for k in _ALL_KEYS:
        want = e[_EXP_KEYS.get(k, k)]
        got = o.get(k)
        if k == "secs":
            want = [list(x) for x in want]
        if got != want:
            bad.append(k)
    return bad


def lit_intf(c, o):
    if "parse_raised" in o or o.get("cls") != "IOSIntfLine" or isinstance(o.get("is_shutdown"), dict) or isinstance(o.get("is_switchport"), dict):
        # the factory must accept a generated stanza and build an IOSIntfLine: make the case disagree
        return "(%s, [], (([], [], None), ([], [], [], None, None), ([], None, false), (false, None, None, None, None)), false)" % common.strlit(c["hdr"])
    desc = common.listlit(["(%s, %s)" % ("true" if f else "false", common.strlit(t)) for f, t in o["desc"]])
    return "(%s, %s, %s, %s)" % (common.strlit(o["hdr"]), desc, _obs_lit(o), "false" if exp_mismatch(c, o) else "true")


def nontrivial_intf(c, o):
    if "parse_raised" in o or c["nattr"] < 4:
        return None
    return zlib.crc32(repr((c["hdr"], c["body"])).encode())


def describe_intf(c, o):
    return {"config": c["pre"] + [c["hdr"]] + c["body"] + c["post"], "described": c.get("expected"), "impl": {k: v for k, v in o.items() if k != "desc"},
            "differs_from_description": exp_mismatch(c, o) if "parse_raised" not in o else "parse raised"}


# --------------------------------------------------------------------------- routes
NH_INTF = ["GigabitEthernet0/1", "Null0", "Serial1/0.100", "Vlan10", "Tunnel5", "Port-channel1", "Gi0/0/1"]


def gen_route(rng, tier, escalate):
    n = 1500 * (4 if (tier == "thorough" or escalate) else 1)
    cases = []
    for i in range(n):
        p = lambda q: rng.random() < q
        d = {"vrf": rng.choice(["RED", "mgmt", "C-1"]) if p(0.35) else None, "prefix": rnd_ip(rng) if p(0.9) else "0.0.0.0",
             "mask": MASKS[i % 33] if i < 330 else rng.choice(MASKS)}
        r = rng.random()
        d["intf"] = rng.choice(NH_INTF) if r < 0.45 else None
        d["nh"] = rnd_ip(rng) if (r >= 0.25) else None
        d["ad"] = rng.choice([1, 2, 200, 254, 255, rng.randint(1, 255)]) if p(0.45) else None
        d["name"] = rng.choice(["default", "to-core", "name", "track", "X_1"]) if p(0.4) else None
        r = rng.random()
        d["permanent"] = r < 0.15
        d["track"] = rng.choice([1, 5, 500, 1000]) if 0.15 <= r < 0.4 else None
        d["tag"] = rng.choice([1, 100, 4294967295]) if p(0.25) else None
        w = ["ip", "route"]
        if d["vrf"]:
            w += ["vrf", d["vrf"]]
        w += [d["prefix"], d["mask"]]
        if d["intf"]:
            w.append(d["intf"])
        if d["nh"]:
            w.append(d["nh"])
        if d["ad"] is not None:
            w.append(str(d["ad"]))
        if d["name"]:
            w += ["name", d["name"]]
        if d["permanent"]:
            w.append("permanent")
        if d["track"] is not None:
            w += ["track", str(d["track"])]
        if d["tag"] is not None:
            w += ["tag", str(d["tag"])]
        exp = {"vrf": d["vrf"] or "", "network": d["prefix"], "netmask": d["mask"], "masklen": MASKS.index(d["mask"]),
               "next_hop_interface": d["intf"] or "", "next_hop_addr": d["nh"] or "", "admin_distance": d["ad"] if d["ad"] is not None else 1,
               "route_name": d["name"] or "", "tracking_object_name": str(d["track"]) if d["track"] is not None else "",
               "tag": str(d["tag"]) if d["tag"] is not None else ""}
        nopt = sum(1 for k in ("vrf", "intf", "nh", "ad", "name", "track", "tag") if d[k] is not None) + (1 if d["permanent"] else 0)
        cases.append({"line": " ".join(w), "expected": exp, "nopt": nopt,
                      "pre": rng.choice([[], ["hostname r1"], ["interface Gi0/1", " ip address 1.1.1.1 255.255.255.0"]])})
    return cases


ROUTE_ACC = ["vrf", "network", "netmask", "masklen", "next_hop_interface", "next_hop_addr", "admin_distance", "route_name", "tracking_object_name", "tag"]


def run_route(case):
    from ciscoconfparse2 import CiscoConfParse
    try:
        p = CiscoConfParse(case["pre"] + [case["line"]], syntax="ios", factory=True)
        o = p.objs[len(case["pre"])]
    except BaseException as e:
        return {"parse_raised": type(e).__name__}
    out = {"cls": type(o).__name__, "text": o.text}
    for a in ROUTE_ACC:
        try:
            out[a] = getattr(o, a)
        except BaseException as e:
            out[a] = {"raised": type(e).__name__}
    return out


def _route_tuple(o):
    return "(%s, %s, %s, %s, %s, %s, %s, %s, %s, %s)" % (
        _str(o["vrf"]), _str(o["network"]), _str(o["netmask"]), _oz(o["masklen"]), _str(o["next_hop_interface"]), _str(o["next_hop_addr"]),
        _oz(o["admin_distance"]), _str(o["route_name"]), _str(o["tracking_object_name"]), _str(o["tag"]))


def route_mismatch(c, o):
    e = c.get("expected")
    if e is None:
        return []
    return [k for k in ROUTE_ACC if o.get(k) != e[k]]


def lit_route(c, o):
    if "parse_raised" in o or o.get("cls") != "IOSRouteLine":
        return "(%s, None, false)" % common.strlit(c["line"])
    return "(%s, Some %s, %s)" % (common.strlit(o["text"]), _route_tuple(o), "false" if route_mismatch(c, o) else "true")


def describe_route(c, o):
    return {"config": c["pre"] + [c["line"]], "described": c.get("expected"), "impl": o,
            "differs_from_description": route_mismatch(c, o) if "parse_raised" not in o else "parse raised"}


def nontrivial_route(c, o):
    if "parse_raised" in o or c["nopt"] < 2:
        return None
    return zlib.crc32(c["line"].encode())


# --------------------------------------------------------------------------- transparency
T_POOL = {
    "ios": [["interface GigabitEthernet0/1", " description x", " ip address 10.0.0.1 255.255.255.0", " no shutdown"],
            ["interface Serial1/0.100 point-to-point", " ip address 10.1.1.1 255.255.255.252", " pvc 0/100", "  vbr-nrt 704 704"],
            ["ip route 10.0.0.0 255.0.0.0 10.1.1.2 200 name foo"], ["ip route vrf X 0.0.0.0 0.0.0.0 Null0"], ["ipv6 route ::/0 2001:db8::1"],
            ["line vty 0 4", " transport input ssh", " exec-timeout 5 0"], ["line con 0"], ["no cdp run"], ["spanning-tree portfast default"],
            ["hostname r1"], ["!"], ["! comment"], [""], ["aaa new-model"], ["aaa authentication login default local"],
            ["router ospf 1", " network 10.0.0.0 0.255.255.255 area 0", " passive-interface default"],
            ["banner motd ^C", "hello", "^C"], [" interface nested-looking"], ["policy-map X", " class Y", "  police 8000", "   exceed-action drop"],
            ["logging event link-status global"], ["interface Vlan10", " shutdown"], ["end"]],
    "nxos": [["interface Ethernet1/1", "  description x", "  ip address 10.0.0.1/24", "  no shutdown"], ["interface port-channel5", "  vpc 5"],
             ["vpc domain 10", "  peer-keepalive destination 10.0.0.2", "  role priority 100"], ["feature bgp"], ["hostname n1"],
             ["line vty", "  session-limit 5"], ["ip route 0.0.0.0/0 10.0.0.1"], ["!"], [""], ["vrf context management", "  ip route 0.0.0.0/0 10.1.1.1"],
             ["router bgp 65000", "  neighbor 10.0.0.2", "    remote-as 65001"], ["no cdp enable"], ["spanning-tree port type edge default"]],
    "iosxr": [["interface GigabitEthernet0/0/0/0", " description x", " ipv4 address 10.0.0.1 255.255.255.0", " shutdown"],
              ["router static", " address-family ipv4 unicast", "  0.0.0.0/0 10.0.0.1"], ["hostname x1"], ["!"], [""],
              ["route-policy RP", "  pass", "end-policy"], ["line default", " exec-timeout 10 0"], ["interface Loopback0", " ipv4 address 1.1.1.1 255.255.255.255"]],
    "asa": [["interface GigabitEthernet0/0", " nameif outside", " security-level 0", " ip address 198.51.100.1 255.255.255.0"],
            ["hostname fw1"], ["names"], ["name 10.0.0.5 server1"], ["object network WEB", " host 10.0.0.5"], ["object service HTTP", " service tcp destination eq 80"],
            ["object-group network SERVERS", " network-object host 10.0.0.5", " network-object 10.1.0.0 255.255.0.0"],
            ["object-group service WEBPORTS tcp", " port-object eq 80", " port-object range 8000 8080"],
            ["access-list OUT extended permit tcp any host 10.0.0.5 eq 80"], ["access-list OUT remark hello"], ["route outside 0.0.0.0 0.0.0.0 198.51.100.254 1"],
            ["!"], [""], ["mtu outside 1500"], ["no cdp run"]],
}
T_JUNOS = [
    ["system {", "    host-name j1;", "    services {", "        ssh;", "    }", "}"],
    ["interfaces {", "    ge-0/0/0 {", "        description \"uplink\";", "        unit 0 {", "            family inet {", "                address 10.0.0.1/24;", "            }", "        }", "    }", "}"],
    ["routing-options {", "    static {", "        route 0.0.0.0/0 next-hop 10.0.0.254;", "    }", "}"],
    ["## comment"], ["protocols {", "    ospf {", "        area 0.0.0.0 {", "            interface ge-0/0/0.0;", "        }", "    }", "}"],
]


def gen_transp(rng, tier, escalate):
    n = 700 * (4 if (tier == "thorough" or escalate) else 1)
    cases = []
    for _ in range(n):
        syn = rng.choice(["ios", "ios", "nxos", "iosxr", "asa", "junos"])
        lines = []
        if syn == "junos":
            for b in rng.sample(T_JUNOS, rng.randint(1, 4)):
                lines += b
        else:
            pool = T_POOL[syn]
            for b in [rng.choice(pool) for _ in range(rng.randint(1, 7))]:
                lines += b
                if syn == "ios" and rng.random() < 0.25:
                    d = gen_intf_desc(rng)
                    lines += ["interface " + " ".join(d["name_words"])] + [" " + x for x in attr_lines(d)]
        cases.append({"syntax": syn, "lines": lines})
    return cases


def _dump(p):
    return [[o.text, o.parent.linenum, [c.linenum for c in o.children]] for o in p.objs]


def run_transp(case):
    from ciscoconfparse2 import CiscoConfParse
    try:
        off = CiscoConfParse(list(case["lines"]), syntax=case["syntax"], factory=False)
    except BaseException as e:
        return {"skip": "factory off raised %s" % type(e).__name__}
    try:
        on = CiscoConfParse(list(case["lines"]), syntax=case["syntax"], factory=True)
    except BaseException as e:
        return {"skip": "factory rejects the config (%s)" % type(e).__name__}
    base = {"ios": "IOSCfgLine", "nxos": "NXOSCfgLine", "iosxr": "IOSXRCfgLine", "asa": "ASACfgLine", "junos": "JunosCfgLine"}[case["syntax"]]
    return {"off": _dump(off), "on": _dump(on), "typed": sum(1 for o in on.objs if type(o).__name__ != base)}


def _dump_lit(d):
    return common.listlit(["(%s, %s, %s)" % (common.strlit(t), zl(p), common.listlit([zl(x) for x in ch])) for t, p, ch in d])


def lit_transp(c, o):
    if "skip" in o:
        return "([], [])"
    return "(%s, %s)" % (_dump_lit(o["off"]), _dump_lit(o["on"]))


def nontrivial_transp(c, o):
    if "skip" in o or not o["typed"]:
        return None
    return zlib.crc32(repr((c["syntax"], c["lines"])).encode())


def describe_transp(c, o):
    return {"syntax": c["syntax"], "config": c["lines"], "impl": o if "skip" in o else {"factory_off": o["off"], "factory_on": o["on"]}}


PRE = ("From Coq Require Import NArith ZArith List. Import ListNotations. "
       "Require Import CCP.Lib.PyStr CCP.Model.IntfCfg CCP.Corr.C19.")

STREAMS = [
    Stream("intf", gen_intf, run_intf, lit_intf, preamble=PRE, ctype="case19i", agree="agree19i", show="model19i",
           nontrivial=nontrivial_intf, describe=describe_intf, shard=100, rule="interface stanzas from descriptions; 17 accessors vs model vs description"),
    Stream("route", gen_route, run_route, lit_route, preamble=PRE, ctype="case19r", agree="agree19r", show="model19r",
           nontrivial=nontrivial_route, describe=describe_route, shard=100, rule="ip route lines from descriptions; 10 accessors vs model vs description"),
    Stream("transp", gen_transp, run_transp, lit_transp, preamble=PRE, ctype="case19t", agree="agree19t",
           nontrivial=nontrivial_transp, describe=describe_transp, shard=50, rule="factory off vs on, five syntaxes: texts, parents, children"),
]
