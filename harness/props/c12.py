"""C12 — membership between address objects is exactly subnet containment."""
import ipaddress

from runner import Stream
import common

ID = "C12"
LEVEL = "proof"
PROPS = "Props/C12.vo"
USES_TRANSLATOR = True      # coq/gen/GenIP.v (harness/translate.py) is part of this property's model
MODEL_TARGETS = ["Corr/C12.vo"]
OBLIGATION_FILES = ["Props/C12.v", "gen/GenOK12.v"]
ANCHORS = [("ciscoconfparse2/ccp_util.py", "IPv4Obj.__contains__"), ("ciscoconfparse2/ccp_util.py", "IPv6Obj.__contains__"),
           ("ciscoconfparse2/ccp_util.py", "IPv4Obj.as_decimal_broadcast"), ("ciscoconfparse2/ccp_util.py", "IPv6Obj.as_decimal_network_maxint"),
           ("ciscoconfparse2/ccp_util.py", "IPv6Obj.numhosts"), ("ciscoconfparse2/ccp_util.py", "collapse_addresses")]
RULE = ("stream grid: every pair of prefix lengths (IPv4: all 33x33; IPv6: all 129x129 in the thorough tier, a 27-value boundary set squared "
        "in the quick tier) x x placed at {before, first, second, middle, next-to-last, last, after} of y's network x 2 host-bit "
        "patterns of y, plus random pairs; `x in y` of the real objects is compared with contains_ref evaluated by vm_compute. "
        "non-trivial = x's address within 2 of a boundary of y's network and prefix lengths ordered so that the answer depends on the address; "
        "distinct by (family, plen y, plen x, position). aux: collapse_addresses vs ipaddress.collapse_addresses on random lists (test only).")
EXHAUSTIVE = {"quick": False, "thorough": True}
TRUSTED = [
    "Coq 8.16.1 kernel incl. vm_compute (no native_compute)",
    "harness/translate.py: Python ast -> Gallina for IPv4Obj/IPv6Obj.__contains__ and the derived properties it reads; attribute map as_decimal->addr, as_decimal_network->netw, prefixlen->plen (checked by this correspondence and by C11)",
    "correspondence driver harness/props/c12.py and the Gallina literal emitter",
    "collapse_addresses clause: differential test against ipaddress only (not a theorem)",
]
ASSUMPTIONS = ["both operands are non-empty address objects of the same family",
               "ipaddress is the reference for the collapse_addresses clause"]

POS = ["before", "first", "second", "middle", "next-to-last", "last", "after"]
B6 = [0, 1, 2, 7, 8, 9, 15, 16, 17, 31, 32, 33, 47, 48, 49, 63, 64, 65, 95, 96, 97, 112, 120, 125, 126, 127, 128]


def _place(W, ynet, yp, pos):
    size = 1 << (W - yp)
    last = ynet + size - 1
    a = {"before": ynet - 1, "first": ynet, "second": ynet + 1, "middle": ynet + size // 2,
         "next-to-last": last - 1, "last": last, "after": last + 1}[pos]
    return a


def gen(rng, tier, escalate):
    cases = []
    for W in (32, 128):
        full = (W == 32) or tier == "thorough" or escalate
        plens = list(range(W + 1)) if full else B6
        for yp in plens:
            # two networks per prefix length: one in the middle of the space, one at the top
            tops = [((rng.getrandbits(W) >> (W - yp)) << (W - yp)) if yp else 0, (((1 << W) - 1) >> (W - yp)) << (W - yp) if yp else 0]
            for xp in plens:
                for ti, ynet in enumerate(tops if (yp + xp) % 2 == 0 or full else tops[:1]):
                    yhost = ynet + (rng.getrandbits(W - yp) if yp < W else 0)
                    for pos in POS:
                        a = _place(W, ynet, yp, pos)
                        if not (0 <= a < (1 << W)):
                            continue
                        cases.append({"W": W, "ya": yhost if ti == 0 else ynet, "yp": yp, "xa": a, "xp": xp, "pos": pos})
        nrand = 3000 * (4 if (tier == "thorough" or escalate) else 1)
        for _ in range(nrand):
            yp = rng.randint(0, W)
            xp = rng.randint(0, W)
            ya = rng.getrandbits(W)
            # x shares a random number of leading bits with y
            k = rng.randint(0, W)
            xa = ((ya >> (W - k)) << (W - k)) | rng.getrandbits(W - k) if k < W else ya
            cases.append({"W": W, "ya": ya, "yp": yp, "xa": xa, "xp": xp, "pos": "random"})
    return cases


def _obj(W, a, p):
    from ciscoconfparse2.ccp_util import IPv4Obj, IPv6Obj
    if W == 32:
        return IPv4Obj("%s/%d" % (ipaddress.IPv4Address(a), p))
    return IPv6Obj("%s/%d" % (ipaddress.IPv6Address(a), p))


def run(case):
    y = _obj(case["W"], case["ya"], case["yp"])
    x = _obj(case["W"], case["xa"], case["xp"])
    try:
        return 1 if (x in y) else 0
    except BaseException:
        return 2


def lit(c, o):
    return "(%d, %s, %d, %s, %d, %d)" % (c["W"], common.zlit(c["ya"]), c["yp"], common.zlit(c["xa"]), c["xp"], o)


def nontrivial(c, o):
    if c["pos"] == "random" or c["yp"] > c["xp"] or c["yp"] == 0:
        return None
    return (c["W"], c["yp"], c["xp"], c["pos"])


def describe(c, o):
    f = ipaddress.IPv4Address if c["W"] == 32 else ipaddress.IPv6Address
    return {"x": "%s/%d" % (f(c["xa"]), c["xp"]), "y": "%s/%d" % (f(c["ya"]), c["yp"]), "position_of_x": c["pos"],
            "impl_x_in_y": {0: False, 1: True, 2: "raised"}[o]}


STREAMS = [Stream("contains", gen, run, lit,
                  preamble="From Coq Require Import ZArith List. Import ListNotations. Require Import CCP.Corr.C12. Open Scope Z_scope.",
                  ctype="Z * Z * Z * Z * Z * Z", agree="agree12", show="model12", nontrivial=nontrivial, describe=describe,
                  shard=250, rule="grid + random pairs")]


def aux(rng, tier, escalate):
    """collapse_addresses vs the standard library (test only)."""
    common.setup_impl()
    from ciscoconfparse2.ccp_util import IPv4Obj, IPv6Obj, collapse_addresses
    n = 300 * (5 if tier == "thorough" or escalate else 1)
    failures = []
    for t in range(n):
        W = rng.choice((32, 128))
        objs, nets = [], []
        base = rng.getrandbits(W)
        for _ in range(rng.randint(1, 8)):
            p = rng.randint(max(0, W - 12), W)
            a = (base & ~((1 << 14) - 1)) | rng.getrandbits(14)
            if W == 32:
                objs.append(IPv4Obj("%s/%d" % (ipaddress.IPv4Address(a), p)))
                nets.append(ipaddress.ip_network("%s/%d" % (ipaddress.IPv4Address(a), p), strict=False))
            else:
                objs.append(IPv6Obj("%s/%d" % (ipaddress.IPv6Address(a), p)))
                nets.append(ipaddress.ip_network("%s/%d" % (ipaddress.IPv6Address(a), p), strict=False))
        try:
            got = [str(x) for x in collapse_addresses(objs)]
        except BaseException as e:
            got = "raised %s" % type(e).__name__
        exp = [str(x) for x in ipaddress.collapse_addresses(nets)]
        if got != exp:
            failures.append({"case": {"objects": [str(o) for o in nets]}, "observed": got, "expected": exp,
                             "detail": "collapse_addresses differs from ipaddress.collapse_addresses"})
    return {"evaluations": n, "failures": failures, "note": "collapse_addresses vs ipaddress.collapse_addresses (test, not proof)"}

TECHNIQUE = "Coq proof (unbounded, over Z) about Gallina terms regenerated from IPv4Obj/IPv6Obj.__contains__ by an ast translator; vm_compute correspondence on a boundary grid"
LEVEL_TEXT = ("Machine-checked theorems (Coq 8.16.1, closed under the global context) for ALL pairs of well-formed address objects of both families: "
              "membership <-> prefix containment, totality, reflexivity, transitivity, first/last address inside, neighbours outside, default route. "
              "The theorems are about gen_v4_contains / gen_v6_contains, which are re-translated from /repo's source on every run and re-proved equal "
              "to the reference definition (gen/GenOK12.v); a grid correspondence run of the real objects against the reference model ties the attribute map "
              "and finds a concrete failing pair when an obligation breaks.")
LEVEL_NOTE = ("Trusted: Coq kernel + vm_compute; the translator (harness/translate.py) with its typing assumptions (non-empty objects of one family) and attribute map; "
              "the correspondence driver. The collapse_addresses clause is a pass-through to ipaddress and is decided by differential test against the standard library only (not proved).")
