"""C03 — family relations form a consistent forest."""
import itertools

from runner import Stream
import common
import parsegen

ID = "C03"
LEVEL = "proof"
PROPS = "Props/C03.vo"
MODEL_TARGETS = ["Corr/C03.vo"]
OBLIGATION_FILES = ["Props/C03.v"]
ANCHORS = [("ciscoconfparse2/ciscoconfparse2.py", "ConfigList." + m) for m in
           ("_add_child_to_parent", "_banner_mark_regex", "_ciscoios_macro_mark_children", "_reparent", "bootstrap")] + \
          [("ciscoconfparse2/ccp_abc.py", "BaseCfgLine." + m) for m in
           ("all_children", "all_parents", "lineage", "geneology", "family_endpoint", "siblings", "has_children", "is_parent", "is_child")]
RULE = ("configs: exhaustive sequences (length <= 3 quick / 4 thorough) over a 14-symbol alphabet with banner/macro starts, terminators, blank and indented body lines; random pool and "
        "structured banner/macro configs x {ios,nxos,iosxr,asa} x ignore_blank_lines x delimiters; brace-syntax (junos) configs; trees reached after committed edit histories "
        "(insert/append/delete/append_to_family with auto-commit). Observed per line: parent, children, all_children, all_parents, lineage, geneology, family_endpoint, siblings, "
        "has_children/is_parent/is_child; compared with the model AND checked directly for well-formedness (parents precede children, child lists = ascending inverse image). "
        "non-trivial = a banner/macro body containing an indented or blank line, or a line re-parented by two passes; distinct by line pattern.")
EXHAUSTIVE = {"quick": True, "thorough": True}
TRUSTED = ["Coq 8.16.1 kernel incl. vm_compute (no native_compute)",
           "hand models coq/Model/Parse.v (constructor; parent map) and coq/Model/Family.v (derived views as coded), tied by this correspondence",
           "child lists are modelled as the ascending inverse image of the parent map (what _add_child_to_parent/_reparent maintain); the code's real child lists are compared with that on every case",
           "banner regexes are an oracle (see C01)"]
ASSUMPTIONS = ["oracle_ok for the banner regex answers (checked per case)"]
TECHNIQUE = "Coq proof over the parent map (parents precede children for every config; child lists, closure and chain specifications of the derived views) + exhaustive/random vm_compute correspondence of the full family dump"
LEVEL_TEXT = ("For every config and option set the constructor's parent map is well-founded (construct_wf, from construct_parent_before_child: a parent always precedes its child — including banner/macro "
              "re-parenting), child lists are exactly the ascending lines pointing to that parent (each non-root in exactly one list, once), all_children/all_parents are the "
              "descendant/ancestor sets in line order, and lineage/geneology/family_endpoint/siblings/flags are the stated compositions. Tied to the code by exhaustive + random dumps.")
LEVEL_NOTE = ("Trusted: Coq kernel + vm_compute; hand models tied by correspondence; banner-regex oracle. all_children is proved duplicate-free and strictly ascending (all_children_nodup, all_children_strictly_ascending). Brace-syntax trees are checked through the same link model on the converted text.")

SYM = ["a", " b", "", "  c", "!c", "banner motd ^", "^", " ^", "macro name m", "@", " x ^ y", "  ", "banner login #", "#"]
SYNS = ["ios", "nxos", "iosxr", "asa"]


def gen(rng, tier, escalate):
    cases = []
    maxlen = 4 if tier == "thorough" else 3
    for n in range(1, maxlen + 1):
        for seq in itertools.product(SYM, repeat=n):
            cases.append({"syntax": "ios", "ibl": False, "delims": ["!"], "lines": list(seq), "ops": [], "kind": "exh"})
    nrand = 1500 * (4 if (tier == "thorough" or escalate) else 1)
    for t in range(nrand):
        lines = parsegen.structured(rng) if t % 2 == 0 else parsegen.random_lines(rng, 12)
        ops = []
        if t % 5 == 0:
            for _ in range(rng.randint(1, 4)):
                ops.append([rng.choice(["insert", "append", "delete", "atf"]), rng.randint(0, 20), rng.choice([" new", "top", "  deep", "", "banner motd ^", "^", "   ", " "])])
        # with edits: ignore_blank_lines in a third of the cases (whitespace-only payloads are then dropped by the commit), and
        # the edit's own auto-commit is the only commit in half of the cases (a second commit could repair stale links)
        cases.append({"syntax": rng.choice(SYNS), "ibl": rng.random() < (0.3 if ops else 0.4), "delims": rng.choice([["!"], ["#"], ["!", "#"]]),
                      "lines": lines, "ops": ops, "kind": "rnd", "extra_commit": rng.random() < 0.5})
    for t in range(nrand // 5):
        cases.append({"syntax": "junos", "ibl": False, "delims": ["#"], "lines": _brace_cfg(rng), "ops": [], "kind": "brace"})
    return cases


def _brace_cfg(rng, depth=0):
    out = []
    for _ in range(rng.randint(1, 3)):
        w = rng.choice(["system", "interfaces", "ge-0/0/%d" % rng.randint(0, 3), "unit 0", "family inet", "address 10.0.0.1/24", "host-name x", "# note"])
        pad = "    " * depth
        if depth < 3 and rng.random() < 0.5 and not w.startswith("#"):
            out.append(pad + w + " {")
            out += _brace_cfg(rng, depth + 1)
            out.append(pad + "}")
        else:
            out.append(pad + w + (";" if not w.startswith("#") else ""))
    return out


def _dump(p):
    out = []
    for o in p.objs:
        out.append([None if o.parent is o else o.parent.linenum, [c.linenum for c in o.children], [c.linenum for c in o.all_children],
                    [c.linenum for c in o.all_parents], [c.linenum for c in o.lineage], [c.linenum for c in o.geneology],
                    o.family_endpoint, [c.linenum for c in o.siblings], bool(o.has_children), bool(o.is_parent), bool(o.is_child)])
    return out


def run(c):
    from ciscoconfparse2 import CiscoConfParse
    try:
        p = CiscoConfParse(list(c["lines"]), syntax=c["syntax"], ignore_blank_lines=c["ibl"], comment_delimiters=list(c["delims"]))
        for op, k, s in c["ops"]:
            n = len(p.objs)
            try:
                if op == "insert":
                    p.objs.insert(k % (n + 1), s)
                elif op == "append":
                    p.objs.append(s)
                elif op == "delete" and n > 1:
                    p.objs[k % n].delete()
                elif op == "atf" and n > 0:
                    p.objs[k % n].append_to_family(s, auto_indent=True)
            except BaseException:
                pass
            if c.get("extra_commit", True):
                p.commit()
        return {"text": p.get_text(), "dump": _dump(p), "raised": None}
    except BaseException as e:
        return {"raised": type(e).__name__}


def _nl(l):
    return "[" + "; ".join(str(x) for x in l) + "]"


def lit(c, o):
    if o["raised"]:
        return "((false, false), [], [], [(Some 0, [], [], [], ([], []), (0, []), (false, false, false))])"     # forces a disagreement
    brace = c["syntax"] == "junos"
    final_text = o["text"]
    # after edits (or for brace syntax) the tree must be that of a fresh parse of the current text
    src = final_text if (c["ops"] or brace) else c["lines"]
    head = "(%s, %s)" % (common.blit(c["syntax"] == "ios"), common.blit(c["ibl"]))
    d = "[" + "; ".join(str(ord(x)) for x in c["delims"]) + "]%N"
    if brace:
        lines = "[" + "; ".join("(%s, None)" % common.strlit(l) for l in src) + "]"
    else:
        lines = parsegen.lines_lit(src)
    ds = []
    for (par, ch, ac, ap, lin, gen_, ep, sib, f1, f2, f3) in o["dump"]:
        ds.append("(%s, %s, %s, %s, (%s, %s), (%d, %s), (%s, %s, %s))" % (
            "None" if par is None else "Some %d" % par, _nl(ch), _nl(ac), _nl(ap), _nl(lin), _nl(gen_), ep, _nl(sib),
            common.blit(f1), common.blit(f2), common.blit(f3)))
    return "(%s, %s, %s, [%s])" % (head, d, lines, "; ".join(ds))


def nontrivial(c, o):
    if o["raised"]:
        return None
    ls = o["text"]
    body = False
    for row in o["dump"]:
        pass
    starts = [i for i, l in enumerate(ls) if parsegen.pban(l) or (c["syntax"] == "ios" and l.startswith("macro name "))]
    for i, row in enumerate(o["dump"]):
        if row[0] is not None and row[0] in starts and (ls[i].strip() == "" or ls[i][:1].isspace()):
            body = True
    if body or c["ops"] or c["syntax"] == "junos":
        return (c["syntax"], c["ibl"], tuple(ls))
    return None


def describe(c, o):
    return {"lines": c["lines"], "syntax": c["syntax"], "ignore_blank_lines": c["ibl"], "ops": c["ops"],
            "impl": o if o["raised"] else {"text": o["text"], "parent/children/all_children/...": o["dump"][:6]}}


STREAMS = [Stream("family", gen, run, lit,
                  "From Coq Require Import List NArith. Import ListNotations. Require Import CCP.Corr.C03.",
                  "case03", "agree03", show=None, nontrivial=nontrivial, describe=describe, shard=150)]
