"""C05 — typed value extraction returns the first match in family order, else the default."""
import json
import re

from runner import Stream
import common
from props import c04 as S

ID = "C05"
LEVEL = "proof"
PROPS = "Props/C05.vo"
MODEL_TARGETS = ["Corr/C05.vo"]
OBLIGATION_FILES = ["Props/C05.v"]
_M = "ciscoconfparse2/ciscoconfparse2.py"
_A = "ciscoconfparse2/ccp_abc.py"
ANCHORS = [(_A, "BaseCfgLine.re_match"), (_A, "BaseCfgLine.re_match_typed"), (_A, "BaseCfgLine.re_match_iter_typed"),
           (_A, "BaseCfgLine.re_list_iter_typed"), (_A, "BaseCfgLine.re_list_iter_typed_groupdict_none"),
           (_A, "BaseCfgLine.all_children"), (_M, "CiscoConfParse.re_match_iter_typed")]
RULE = ("each case = one config (interface-like stanzas, depth <= 4, values placed at self / child / grandchild / none / several, plus random "
        "indentation trees) + ONE extraction call (re_match, re_match_typed, re_match_iter_typed, re_list_iter_typed on a chosen line, "
        "CiscoConfParse.re_match_iter_typed) with a regex of 1..3 groups, a group index 0..3, result_type in str/int/float/IPv4Obj, recurse, "
        "default (str/int/float/None/bool) typed or untyped.  The harness supplies per line the group text re.search yields and per text the value "
        "result_type(text) yields (or that it raises); the Gallina model is run on the dumped forest and compared with the value returned "
        "(type name + printed form) or 'raised'.  non-trivial = the answer comes from a line other than the queried one, or is the default "
        "with at least one child present, distinct by (API, type, recurse, untyped, where the first match sits, answer kind). In 15% of the non-root cases the queried line object is edited in place (obj.text = the words of another line, same column) after the parse and before the call: extraction must read the current text. The dumped forest is vetted as in C04 (it must be the tree the text denotes); banner and macro bodies are queried too.")
EXHAUSTIVE = {"quick": False, "thorough": False}
TRUSTED = [
    "Coq 8.16.1 kernel incl. vm_compute",
    "python `re` as the regex oracle (group text per line) and int/float/str/IPv4Obj as the conversion oracle: both computed by the harness, not modelled",
    "the forest is dumped from the real objects (obj.parent.linenum, obj.children); the parser itself is the subject of C01-C03",
    "correspondence driver harness/props/c05.py and the Gallina literal emitter; values are compared as (type name, printed form)",
]
ASSUMPTIONS = ["children of a line have larger line numbers and are lines of the config (checked on every case)",
               "the requested group participates in the match (otherwise re_match_iter_typed / re_list_iter_typed convert None: F24, information only; "
               "the model is faithful there and such cases are still compared)",
               "groupdict=None (the dict variants are outside the property)"]

TYPES = ["str", "int", "float", "IPv4Obj"]
STANZA_HEAD = ["interface Eth1", "interface Eth2", "interface Serial1/0", "router bgp 65001", "vlan 10", "hostname R1", "mtu 9000"]
LEAVES = ["ip address 1.1.1.1 255.255.255.0", "ip address 10.0.0.5 255.255.255.252", "mtu 1500", "mtu 9000", "bandwidth 1.5", "bandwidth 100",
          "description to core", "shutdown", "neighbor 1.2.3.4 remote-as 65002", "address-family ipv4", "delay 10", "mtu x", "ip address dhcp",
          "!", "mtu 12 extra", "description", "mtu", "description "]
REGEXES = [  # (regex, number of groups)
    (r"mtu (\d+)", 1), (r"mtu (\S+)", 1), (r"ip address (\S+) (\S+)", 2), (r"ip address (\S+ \S+)", 1), (r"bandwidth (\S+)", 1),
    (r"^\s*(\S+) (\S+) (\S+)", 3), (r"(\d+)\.(\d+)\.(\d+)", 3), (r"interface (\S+)", 1), (r"(Eth|Serial)(\d+)", 2), (r"neighbor (\S+) remote-as (\d+)", 2),
    (r"^(\S+)", 1), (r"(\d+)$", 1), (r"delay (\d+)|mtu (\d+)", 2), (r"mtu (\d+)( extra)?", 2), (r"(x)?interface", 1), (r"shutdown", 0), (r"(\S+) (\d+)", 2),
    (r"hostname (\S+)", 1), (r"vlan (\d+)", 1), (r"router bgp (\d+)", 1),
    # groups that take part in the match but capture the empty string
    (r"description ?(.*)$", 1), (r"mtu ?(\d*)", 1), (r"shutdown(x|)", 1), (r"^\s*(\S*) ?(\S*)", 2), (r"delay (\d*)(\d*)", 2),
]
DEFAULTS = [{"t": "str", "v": ""}, {"t": "str", "v": "D"}, {"t": "str", "v": "-1"}, {"t": "int", "v": -1}, {"t": "float", "v": 2.5},
            {"t": "none", "v": None}, {"t": "bool", "v": False}, {"t": "str", "v": "0.0.0.0/32"}, {"t": "str", "v": "1.5"}]


def gen_stanzas(rng):
    lines = []
    for _ in range(rng.randint(1, 4)):
        if rng.random() < 0.15:
            lines.append("!")
        lines.append(rng.choice(STANZA_HEAD))
        depth = 1
        for _ in range(rng.randint(0, 6)):
            lines.append(" " * depth + rng.choice(LEAVES))
            depth = max(1, min(4, depth + rng.choice([-1, 0, 0, 0, 1, 1])))
    return lines


def _query(rng, nlines):
    rx, ng = rng.choice(REGEXES)
    group = rng.choice([1, 1, 1, 0, min(2, max(ng, 1)), ng, ng + 1 if rng.random() < 0.15 else max(ng, 0)])
    ty = rng.choice(TYPES)
    k = rng.choice(["match", "typed", "typed", "iter", "iter", "iter", "iter", "list", "list", "root", "root"])
    q = {"k": k, "rx": rx, "group": group, "ty": ty, "default": rng.choice(DEFAULTS), "untyped": rng.random() < 0.4,
         "recurse": rng.random() < 0.5, "line": rng.randrange(nlines), "kwdefaults": rng.random() < 0.15}
    return q


def gen(rng, tier, escalate):
    big = tier == "thorough" or escalate
    cases = []
    n = 5200 if big else 1300
    for i in range(n):
        cfg = gen_stanzas(rng) if rng.random() < 0.8 else S.gen_config(rng, maxlines=16, words=["mtu", "10", "1500", "ip", "address", "1.1.1.1", "255.255.255.0", "interface", "Eth1"])
        ibl = rng.random() < 0.7
        heads = [j for j, l in enumerate(cfg) if l and not l.startswith(" ")]
        for _ in range(4):
            q = _query(rng, len(cfg))
            if heads and rng.random() < 0.6:
                q["line"] = rng.choice(heads)               # ask the stanza head: the family is non-trivial
            if rng.random() < 0.15 and q["k"] != "root":
                # the queried line object was edited in place (obj.text = ...) after the parse: extraction reads its CURRENT text
                q["edit"] = rng.randrange(len(cfg))
            cases.append({"cfg": cfg, "ibl": ibl, "q": q})
    # placed matches: the value at self / child / grandchild / nowhere / several places
    base = ["interface Eth1", " description a", " service-policy x", "  class y", "   police 5", " description b"]
    for where in range(7):
        for rc in (False, True):
            for k in ("iter", "list"):
                for ty in TYPES:
                    cfg = list(base)
                    if where < 6:
                        cfg[where] = cfg[where] + " mtu 1500"
                    else:
                        cfg[2] += " mtu 9000"
                        cfg[4] += " mtu 1400"
                        cfg[5] += " mtu 1300"
                    cases.append({"cfg": cfg, "ibl": True, "q": {"k": k, "rx": r"mtu (\d+)", "group": 1, "ty": ty, "default": {"t": "str", "v": "-1"},
                                                              "untyped": False, "recurse": rc, "line": 0, "kwdefaults": False}})
    # banner and macro bodies (their lines are children of the opening line whatever their indentation)
    body = ["banner motd ^", " mtu 1500", " mtu 1400", "mtu 1300", "^", "macro name m1", " mtu 9", " mtu 8", "@", "interface Eth1", " mtu 7"]
    for line in (0, 5, 9):
        for rc in (False, True):
            for k in ("iter", "list"):
                cases.append({"cfg": list(body), "ibl": True, "q": {"k": k, "rx": r"mtu (\d+)", "group": 1, "ty": "int", "default": {"t": "str", "v": "-1"},
                                                                  "untyped": False, "recurse": rc, "line": line, "kwdefaults": False}})
    return cases


def _default(d):
    return d["v"]


def _rtype(name):
    from ciscoconfparse2.ccp_util import IPv4Obj
    return {"str": str, "int": int, "float": float, "IPv4Obj": IPv4Obj}[name]


def canon(v):
    t = type(v).__name__
    if t in ("IPv4Obj", "IPv6Obj"):
        return [t, str(v)]
    return [t, repr(v)]


def _conv(rt, x):
    try:
        return {"ok": canon(rt(x))}
    except BaseException as e:
        return {"exc": common.exn_name(e)}


def run(case):
    q = case["q"]
    p = S.parse(case)
    n0 = len(p.objs)
    if q.get("edit") is not None and n0 > 0:
        src = p.objs[q["edit"] % n0].text
        tgt = p.objs[q["line"] % n0]
        # an ordinary command is replaced by the words of another ordinary command (same column): the class of the line and
        # therefore the tree stay what they were
        if not tgt.is_comment and tgt.text.strip() and src.strip() and not src.lstrip().startswith("!"):
            tgt.text = " " * tgt.indent + src.lstrip()          # same column, another line's words
    f = S.dump_forest(p)
    n = len(f["par"])
    line = q["line"] % max(n, 1)
    k = q["k"]
    rt = _rtype(q["ty"])
    dflt = _default(q["default"])
    # ---- oracles: group text per line, conversion per text
    pat = re.compile(q["rx"])
    mg, strs = [], []
    for s in f["texts"]:
        m = pat.search(s)
        if m is None:
            mg.append(["N"])
            continue
        try:
            g = m.group(q["group"])
        except IndexError:
            mg.append(["B"])
            continue
        if g is None:
            mg.append(["0"])
        else:
            if g not in strs:
                strs.append(g)
            mg.append(["G", strs.index(g)])
    if k == "match":
        conv = [{"ok": canon(s)} for s in strs]
        cnone = {"ok": canon(None)}
        dconv = {"ok": canon(dflt)}
    else:
        conv = [_conv(rt, s) for s in strs]
        cnone = _conv(rt, None)
        dconv = _conv(rt, dflt)
    obs = {"forest": {"par": f["par"], "kids": f["kids"], "linenum_ok": f["linenum_ok"]}, "mg": mg, "conv": conv, "cnone": cnone, "dconv": dconv,
           "draw": canon(dflt), "line": line}
    obj = p.objs[line]
    try:
        if k == "match":
            out = {"ok": canon(obj.re_match(q["rx"], group=q["group"], default=dflt))}
        elif k == "typed":
            if q["kwdefaults"]:
                out = {"ok": canon(obj.re_match_typed(q["rx"], group=q["group"], result_type=rt))}
            else:
                out = {"ok": canon(obj.re_match_typed(q["rx"], group=q["group"], result_type=rt, default=dflt, untyped_default=q["untyped"]))}
        elif k == "iter":
            if q["kwdefaults"]:
                out = {"ok": canon(obj.re_match_iter_typed(q["rx"], group=q["group"], result_type=rt))}
            else:
                out = {"ok": canon(obj.re_match_iter_typed(q["rx"], group=q["group"], result_type=rt, default=dflt, untyped_default=q["untyped"],
                                                           recurse=q["recurse"]))}
        elif k == "list":
            out = {"okl": [canon(v) for v in obj.re_list_iter_typed(q["rx"], group=q["group"], result_type=rt, recurse=q["recurse"])]}
        elif k == "root":
            out = {"ok": canon(p.re_match_iter_typed(q["rx"], group=q["group"], result_type=rt, default=dflt, untyped_default=q["untyped"]))}
        else:
            raise KeyError(k)
    except KeyError:
        raise
    except BaseException as e:
        out = {"exc": common.exn_name(e)}
    if q["kwdefaults"] and k in ("typed", "iter"):
        # the call used the documented defaults: default="", untyped_default=False, recurse=True
        obs["dconv"] = _conv(rt, "")
        obs["draw"] = canon("")
    obs["out"] = out
    return obs


def _eff(q):
    if q["kwdefaults"] and q["k"] in ("typed", "iter"):
        return False, True
    return q["untyped"], q["recurse"]


def lit(c, o):
    q, f = c["q"], o["forest"]
    ids = {}

    def vid(cn):
        key = json.dumps(cn)
        if key not in ids:
            ids[key] = len(ids)
        return ids[key]

    def res(r):
        return "(Ok %d)" % vid(r["ok"]) if "ok" in r else "(Raise %s)" % r["exc"]

    forest = "(%s, %s)" % ("[" + "; ".join(S._nl(ks) for ks in f["kids"]) + "]", S._nl(f["par"]))
    mg = "[" + "; ".join({"N": "NoM", "0": "MNone", "B": "MBad"}.get(m[0]) or "MGrp %d" % m[1] for m in o["mg"]) + "]"
    conv = "[" + "; ".join(res(r) for r in o["conv"]) + "]"
    untyped, recurse = _eff(q)
    b = common.blit
    k = q["k"]
    line = o["line"]
    ql = {"match": "QMatch %d" % line, "typed": "QTyped %d %s" % (line, b(untyped)), "iter": "QIter %d %s %s" % (line, b(recurse), b(untyped)),
          "list": "QList %d %s" % (line, b(recurse)), "root": "QRootIter %s" % b(untyped)}[k]
    out = o["out"]
    bad = (not f["linenum_ok"]) or any(x < 0 for x in f["par"]) or any(x < 0 for ks in f["kids"] for x in ks)
    if k == "list":
        if "okl" in out and not bad:
            al = "RList (Ok %s)" % S._nl([vid(v) for v in out["okl"]])
        else:
            al = "RList (Raise %s)" % out.get("exc", "E_Other")
    else:
        al = "RVal %s" % (res(out) if not bad else "(Raise E_Other)")
    return "(%s, %s, %s, %s, %s, %d, %s, %s)" % (forest, mg, conv, res(o["cnone"]), res(o["dconv"]), vid(o["draw"]), ql, al)


def nontrivial(c, o):
    q = c["q"]
    k = q["k"]
    line = o["line"]
    hits = [i for i, m in enumerate(o["mg"]) if m[0] != "N"]
    kids = o["forest"]["kids"][line] if k != "root" else [i for i, p in enumerate(o["forest"]["par"]) if p == i]
    if k in ("match", "typed"):
        return (k, q["ty"], q["untyped"], o["mg"][line][0], "exc" in o["out"])
    if not kids:
        return None
    first = next((("self" if i == line else "child" if i in kids else "deeper") for i in hits if i >= line), "none") if k != "root" else \
        ("root" if any(i in kids for i in hits) else "none")
    return (k, q["ty"], q.get("recurse"), q["untyped"], first, "exc" in o["out"], min(len(hits), 3))


def describe(c, o):
    return {"config": c["cfg"], "ignore_blank_lines": c.get("ibl", True), "query": c["q"], "line_queried": o["line"], "queried_line_edited_to_words_of_line": c["q"].get("edit"), "impl_returned": o["out"],
            "group_text_per_line": o["mg"]}


_PRE = ("From Coq Require Import List Arith Bool NArith. Import ListNotations. "
        "Require Import CCP.Lib.Res CCP.Model.Search CCP.Model.Extract CCP.Corr.C05. Open Scope nat_scope.")

STREAMS = [Stream("extract", gen, run, lit, preamble=_PRE, ctype="case5T", agree="agree05", show="model05", nontrivial=nontrivial,
                  shard=200, describe=describe, rule="one extraction call per case; see RULE")]

TECHNIQUE = ("Coq proof (unbounded: every forest, every regex/group oracle, every conversion oracle) about a hand-written Gallina model of the "
             "extraction methods; vm_compute correspondence of the real methods against the model on dumped forests")
LEVEL_TEXT = ("Machine-checked theorems (Coq 8.16.1, closed under the global context) for ALL forests, regex oracles and conversion oracles: "
              "re_match_iter_typed returns the conversion of the requested group of the FIRST matching line of self :: children (recurse=False) or "
              "self :: all descendants in config order (recurse=True), and the default (converted unless untyped_default) iff no line matches; "
              "re_list_iter_typed returns the converted group of EVERY matching line in that order; CiscoConfParse.re_match_iter_typed does the same "
              "over root lines in config order; re_match_typed / re_match on a single line.  The model is tied to /repo by a correspondence run on "
              "forests dumped from the real objects.")
LEVEL_NOTE = ("Trusted: Coq kernel + vm_compute; python `re` and the result types as oracles; the hand-written model (tied by correspondence + AST "
              "fingerprint escalation); the forest dump.  F24 (optional group that does not participate) is outside the property's quantifier; the "
              "model is faithful there.")
