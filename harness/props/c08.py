"""C08 — brace-delimited configs become an indentation tree that mirrors the nesting."""
from runner import Stream
import common

ID = "C08"
LEVEL = "proof"
PROPS = "Props/C08.vo"
MODEL_TARGETS = ["Corr/C08.vo"]
OBLIGATION_FILES = ["Props/C08.v"]
ANCHORS = [("ciscoconfparse2/ciscoconfparse2.py", "BraceParse.__init__"),
           ("ciscoconfparse2/ciscoconfparse2.py", "BraceParse.parse_braces_to_nested_list"),
           ("ciscoconfparse2/ciscoconfparse2.py", "BraceParse.unpack_nested_list_to_config_objs"),
           ("ciscoconfparse2/ciscoconfparse2.py", "convert_junos_to_ios"),
           ("ciscoconfparse2/ciscoconfparse2.py", "CiscoConfParse.handle_ccp_brace_syntax"),
           ("ciscoconfparse2/ciscoconfparse2.py", "ConfigList.bootstrap"),
           ("ciscoconfparse2/ciscoconfparse2.py", "ConfigList._maintain_bootstrap_parent_cache"),
           ("ciscoconfparse2/ciscoconfparse2.py", "ConfigList._build_bootstrap_parent_child"),
           ("ciscoconfparse2/ciscoconfparse2.py", "ConfigList._add_child_to_parent")]
RULE = ("tree: a statement tree (depth 0-6, fan-out <= 5, junos / F5 / Palo-Alto statement alphabets with quoted strings, brackets, colons, slashes, "
        "interior semicolons, comment statements) is decorated into a LAYOUT (white space before every statement, before and after every brace, "
        "trailing spaces, optional semicolon, line end) in one of 7 styles (K&R, Allman, one-line blocks, no semicolons + blank and comment lines, "
        "random white space incl. CR, tab indentation, 1/2/8-column indents); the layout is rendered by the harness AND by the Gallina "
        "render_forest (compared), split into lines and given to convert_junos_to_ios and to CiscoConfParse(syntax='junos') with factory off and on; "
        "get_text(), parent and children line numbers are compared by vm_compute with Model/Brace.v (fidelity) and with flatten_forest / "
        "forest_parents of the erased tree (the property).  A second family drops one or more closing braces: every call must raise. "
        "Exhaustive: every forest with <= 4 (quick) / 5 (thorough) statements x 4 deterministic layouts.  raw: arbitrary line lists (extra closers, "
        "initial brace, quoted strings with braces and escapes at token start, tabs, control and non-ASCII characters, empty input): fidelity only, "
        "this pins the hand model of pyparsing.  non-trivial = the tree has a block inside a block or a statement after a closed block; "
        "distinct by (shape, layout style, texts).")
EXHAUSTIVE = {"quick": True, "thorough": True}
TRUSTED = [
    "Coq 8.16.1 kernel incl. vm_compute",
    "hand-written model coq/Model/Brace.v of BraceParse / convert_junos_to_ios and of the pyparsing 3.1.1 scanner that nested_expr + the content expression amount to (expandtabs, white skipping, quoted_string at token start, maximal content runs, stop after the outer group) - pinned by both correspondence streams",
    "pyparsing.printables, DEFAULT_WHITE_CHARS, both stop_width defaults and the junos comment delimiter are re-read on every run (harness/gen_c08.py -> gen/TabC08.v) and checked against the model's constants by Props/C08.v C08_tables_as_modelled; the quoted_string regex sources and the exclude_chars / opener / closer literals are emitted for information, their behaviour is pinned by the raw stream",
    "parent rule of ConfigList.bootstrap restated as Model/Brace.v parents_model (the statement of property C02); compared with the real parents and children on every case",
    "correspondence driver harness/props/c08.py incl. its renderer (cross-checked against the Gallina render_forest on every well-formed case)",
]
ASSUMPTIONS = ["statement texts: printable ASCII without braces, words separated by spaces, not starting with a quote or space, not ending with ';' or space",
               "layout white space: space, TAB, LF, CR; every generated layout of the tree stream is checked (in Coq) to satisfy the theorems' hypothesis wfT_lforest",
               "a leaf statement ends at a line break or directly before the closing brace of its block",
               "braces inside quoted strings, non-ASCII text and an extra closing brace are outside the stated quantifier (raw stream: fidelity only)"]

JUNOS = ["system", "host-name r1", "interfaces", "ge-0/0/0", "unit 0", "family inet", "address 10.0.0.1/24", 'description "uplink to core"',
         "apply-groups [ a b ]", "policy-statement export-bgp", "term 1", "from protocol bgp", "then accept", "inactive: interfaces",
         "vlan-id 100", "route 0.0.0.0/0 next-hop 10.0.0.254", "protocols", "bgp", "group ibgp", "neighbor 10.0.0.2", "x", "a;b c"]
F5 = ["ltm pool /Common/web_pool", "members", "/Common/10.1.1.1:80", "address 10.1.1.1", "monitor /Common/http and /Common/tcp",
      "ltm virtual /Common/vs_http", "destination /Common/192.0.2.1:80", "ip-protocol tcp", "profiles", "/Common/tcp", "rules",
      "sys global-settings", "gui-setup disabled", "load-balancing-mode round-robin", "mask 255.255.255.255", 'app-service none', "net vlan /Common/ext"]
PAN = ["deviceconfig", "system", "ip-address 192.168.1.1", "dns-setting", "servers", "primary 8.8.8.8", "rulebase", "security", "rules",
       "allow-web", "from trust", "to [ untrust dmz ]", "application [ web-browsing ssl ]", "action allow", 'description "it\'s ok: x=1"',
       "log-setting fwd_1", "service application-default", "hip-profiles any", "entry@name vsys1"]
ALPHAS = [JUNOS, F5, PAN]
COMMENTS = ["# comment", "## last changed: 2024-01-01 00:00:00 UTC", "# a b  c", "#x"]
STYLES = ["kr", "allman", "oneline", "nosemi", "random", "tabs", "narrow"]


def _s(x):
    return common.strlit(x)


# ------------------------------------------------------------------------------------------ plain trees
def gen_plain(rng, depth, maxdepth, alpha, budget):
    """forest: list of [text, kids]; kids None = leaf statement, list = block"""
    out = []
    n = rng.randint(0 if depth else 1, 5 if depth else 4)
    for _ in range(n):
        if budget[0] <= 0:
            break
        budget[0] -= 1
        if rng.random() < 0.08:
            out.append([rng.choice(COMMENTS), None])
        elif depth < maxdepth and rng.random() < (0.55 if depth < 2 else 0.4):
            out.append([rng.choice(alpha), gen_plain(rng, depth + 1, maxdepth, alpha, budget)])
        else:
            out.append([rng.choice(alpha), None])
    return out


def shapes(n):
    """all forests with n nodes (kids always lists here)"""
    if n == 0:
        return [[]]
    res = []
    for k in range(1, n + 1):
        for kids in shapes(k - 1):
            for rest in shapes(n - k):
                res.append([[None, kids]] + rest)
    return res


def label(forest, texts, counter):
    out = []
    for _, kids in forest:
        t = texts[counter[0] % len(texts)]
        counter[0] += 1
        out.append([t, label(kids, texts, counter) if kids else None])
    return out


# ------------------------------------------------------------------------------------------ layouts
class Deco:
    def __init__(self, rng, style, unclose=0.0):
        self.rng, self.style, self.unclose = rng, style, unclose
        self.out = ""
        self.w = {"narrow": rng.choice([1, 2, 8]), "oneline": 1}.get(style, 4)
        if style == "random":
            self.w = rng.choice([0, 1, 3, 4])

    def ind(self, depth):
        if self.style == "tabs":
            return "\t" * depth
        return " " * (self.w * depth)

    def ws_any(self):
        return self.rng.choice(["", " ", "  ", "\n", "\n\n", " \n ", "\r\n", "\n    ", "\r", "   \n\n  ", "\n \r\n"])

    def pre(self, depth):
        r, st = self.rng, self.style
        if st == "random":
            return self.ws_any()
        at_line_start = (self.out == "" or self.out[-1] in "\n\r")
        if st == "oneline":
            if at_line_start:
                return self.ind(depth)
            return " "
        blank = ""
        if st == "nosemi" and r.random() < 0.2:
            blank = r.choice(["\n", "\n\n", "   \n", "\n  \n"])
        return ("" if at_line_start else "\n") + blank + self.ind(depth)

    def leaf(self, text, depth, last_ok, comment):
        r, st = self.rng, self.style
        pre = self.pre(depth)
        trail, semi, trail2 = "", True, ""
        if st == "nosemi" or comment:
            semi = False
            trail = r.choice(["", " ", "   "])
        elif st == "random":
            semi = r.random() < 0.6
            trail = r.choice(["", "", " ", "  "])
            trail2 = r.choice(["", "", " ", "   "])
        elif st == "tabs" and r.random() < 0.3:
            trail2 = "\t"
        if st == "random":
            term = r.choice(["\n", "\r\n", "\n\n", "\n  ", "\r", "\n \n"])
            if last_ok and r.random() < 0.4:
                term = ""
        elif st == "oneline":
            term = "" if last_ok else "\n"
        else:
            term = "\n" if (st != "narrow" or r.random() < 0.7) else "\r\n"
        if comment and term == "":
            term = "\n"
        node = {"k": "leaf", "pre": pre, "text": text, "trail": trail, "semi": semi, "trail2": trail2, "term": term}
        self.out += pre + text + trail + (";" if semi else "") + trail2 + term
        return node

    def block(self, text, kids, depth):
        r, st = self.rng, self.style
        pre = self.pre(depth)
        if st == "random":
            gap = self.ws_any()
        elif st == "allman":
            gap = "\n" + self.ind(depth)
        elif st == "tabs":
            gap = r.choice([" ", "\t"])
        else:
            gap = " " if (st != "narrow" or r.random() < 0.8) else ""
        closed = not (self.unclose and r.random() < self.unclose)
        self.out += pre + text + gap + "{"
        lk = self.forest(kids, depth + 1, closed)
        if st == "random":
            pc = self.ws_any()
        elif st == "oneline":
            pc = " " if not (self.out[-1] in "\n\r") else self.ind(depth)
        else:
            pc = ("" if self.out[-1] in "\n\r" else "\n") + self.ind(depth)
        self.out += pc + ("}" if closed else "")
        return {"k": "block", "pre": pre, "text": text, "gap": gap, "kids": lk, "pre_close": pc, "closed": closed}

    def forest(self, forest, depth, closer_follows):
        res = []
        for i, (text, kids) in enumerate(forest):
            last = i == len(forest) - 1
            if kids is None:
                res.append(self.leaf(text, depth, closer_follows and last, text.startswith("#")))
            else:
                res.append(self.block(text, kids, depth))
        return res

    def top(self, forest):
        lt = self.forest(forest, 0, True)
        if self.style == "random":
            fin = self.ws_any()
        else:
            fin = "" if (self.out == "" or self.out[-1] in "\n\r") and self.rng.random() < 0.5 else "\n"
        self.out += fin
        return lt, fin


def unclosed(lt):
    return sum((0 if t["k"] == "leaf" else unclosed(t["kids"]) + (0 if t["closed"] else 1)) for t in lt)


def shape_of(lt):
    return "".join("." if t["k"] == "leaf" else "(" + shape_of(t["kids"]) + ")" for t in lt)


def flat(lt, depth=0):
    out = []
    for t in lt:
        out.append(" " * (4 * depth) + t["text"])
        if t["k"] == "block":
            out += flat(t["kids"], depth + 1)
    return out


def lit_forest(lt):
    s = "LNil"
    for t in reversed(lt):
        if t["k"] == "leaf":
            x = "(LLeaf %s %s %s %s %s %s)" % (_s(t["pre"]), _s(t["text"]), _s(t["trail"]), common.blit(t["semi"]), _s(t["trail2"]), _s(t["term"]))
        else:
            x = "(LBlock %s %s %s %s %s %s)" % (_s(t["pre"]), _s(t["text"]), _s(t["gap"]), lit_forest(t["kids"]), _s(t["pre_close"]), common.blit(t["closed"]))
        s = "(LCons %s %s)" % (x, s)
    return s


def _case(rng, plain, style, unclose=0.0):
    d = Deco(rng, style, unclose)
    lt, fin = d.top(plain)
    txt = d.out
    u = unclosed(lt)
    return {"layout": lt, "fin": fin, "lines": txt.split("\n"), "style": style, "kind": 1 if u else 0}


def gen_tree(rng, tier, escalate):
    big = tier == "thorough" or escalate
    cases = []
    # exhaustive: all forests with <= N statements x 4 deterministic layouts
    maxn = 5 if big else 4
    for n in range(0, maxn + 1):
        for sh in shapes(n):
            for style in ("kr", "allman", "oneline", "nosemi"):
                plain = label(sh, JUNOS, [n])
                # childless nodes alternate between leaf statements and empty blocks by style
                if style == "allman":
                    plain = _empty_blocks(plain)
                cases.append(_case(rng, plain, style))
    # random trees
    for _ in range(1400 * (4 if big else 1)):
        alpha = rng.choice(ALPHAS)
        maxdepth = rng.choice([1, 2, 3, 4, 6])
        plain = gen_plain(rng, 0, maxdepth, alpha, [rng.choice([4, 8, 14, 24])])
        cases.append(_case(rng, plain, rng.choice(STYLES)))
    # missing closing braces
    for _ in range(500 * (4 if big else 1)):
        alpha = rng.choice(ALPHAS)
        plain = gen_plain(rng, 0, rng.choice([1, 2, 3, 6]), alpha, [rng.choice([4, 8, 14])])
        if not any(k is not None for _, k in plain):
            plain.append([rng.choice(alpha), [[rng.choice(alpha), None]]])
        c = _case(rng, plain, rng.choice(STYLES), unclose=rng.choice([0.2, 0.5, 1.0]))
        if c["kind"] == 1:
            cases.append(c)
    return cases


def _empty_blocks(plain):
    return [[t, (_empty_blocks(k) if k else [])] for t, k in plain]


def _ccp(lines, factory):
    from ciscoconfparse2 import CiscoConfParse
    try:
        p = CiscoConfParse(list(lines), syntax="junos", factory=factory)
        return [p.get_text(), [o.parent.linenum for o in p.objs], [[c.linenum for c in o.children] for o in p.objs]]
    except BaseException:
        return None


def _observe(lines):
    from ciscoconfparse2.ciscoconfparse2 import convert_junos_to_ios
    try:
        conv = convert_junos_to_ios(list(lines))
    except BaseException:
        conv = None
    return {"conv": conv, "f0": _ccp(lines, False), "f1": _ccp(lines, True)}


def run_tree(case):
    return _observe(case["lines"])


def _natl(l):
    return "[" + "; ".join(str(x) for x in l) + "]"


def _ccplit(o):
    if o is None:
        return "None"
    return "(Some (%s, %s, %s))" % (common.listlit([_s(t) for t in o[0]]), _natl(o[1]), common.listlit([_natl(c) for c in o[2]]))


def _obslit(o):
    conv = "None" if o["conv"] is None else "(Some %s)" % common.listlit([_s(t) for t in o["conv"]])
    return "(%s, %s, %s)" % (conv, _ccplit(o["f0"]), _ccplit(o["f1"]))


def lit_tree(c, o):
    return "(%s, %s, %s, %d, %s)" % (lit_forest(c["layout"]), _s(c["fin"]), common.listlit([_s(l) for l in c["lines"]]), c["kind"], _obslit(o))


def nontrivial_tree(c, o):
    sh = shape_of(c["layout"])
    if "((" in sh or ")." in sh or ")(" in sh:
        return (sh, c["style"], c["kind"], tuple(flat(c["layout"])))
    return None


def describe_tree(c, o):
    return {"lines": c["lines"], "style": c["style"], "shape": shape_of(c["layout"]),
            "demand": "flattened tree + parents" if c["kind"] == 0 else "must raise (closing brace missing)",
            "expected_lines": flat(c["layout"]) if c["kind"] == 0 else None,
            "convert_junos_to_ios": o["conv"] if o["conv"] is not None else "raised",
            "get_text": (o["f0"][0] if o["f0"] else "raised"), "parents": (o["f0"][1] if o["f0"] else None),
            "factory_same": o["f0"] == o["f1"]}


# ------------------------------------------------------------------------------------------ raw
FIXED_RAW = [
    [], [""], ["", ""], ["   "], ["a"], ["a;"], ["a } b"], ["a { b"], ["{ a }"], [" { a }"], ["} a"], ["a {{ b }}"], ["a{b}c"],
    ["a { b }", "}", "c"], ["a {", '"x { y" z;', "}"], ["a {", 'b "x { y" z;', "}"], ["a {", 'b "x y" z;', '"q r" s;', "'u v' w;", "}"],
    ['a "unterminated { b; }'], ['a { "un\\"te{r" ; }'], ['a { "x""y{" ; }'], ['a { "x\\x4G{" q; }'], ['a { "x\\xZ{" q; }'],
    ["a\tb {", "c\td;", "}"], ["\ta {", "\t\tb;", "\t}"], ["a {", "\tb\tc;", "}"], ["é { b; }"], ["a { é; }"], ["a {\x0b b;", "}"],
    ["a {\x0c b;", "}"], ["a {\r b;", "}"], ["a \x01 { b;", "}"], ["a \x7f { b;", "}"], ["a { b; }; c"], ["a {", "  ! x", "  # y", " }"],
    ["a {", "  b {", "    c;", "  }", "  # comment", "  d;", "}"], ["a {", "b;;", ";", "c ; ", "}"], ["a { '' }"], ["a { 'b", "c' }"],
    ['a { "b\\', 'c" }'], ["a { \"\\x41}\" }"], ['"a" { b; }'], ["'a b' {", "c;", "}"], ["a { b; } }"], ["a { } { }"], [";"], ["a { ; }"],
    ["#{", "}"], ["a {", "# } x", "}"], ["x" * 3 + " {" * 7 + " y;" + " }" * 7],
]


def gen_raw(rng, tier, escalate):
    big = tier == "thorough" or escalate
    cases = [{"lines": l} for l in FIXED_RAW]
    inserts = ["}", "{", '"', "'", '"a { b"', "'x } y'", "\t", "\x0b", "é", "\x01", "\\", '\\x4', ";", " ", "\r", '""', "#", '"q" ']
    for _ in range(900 * (4 if big else 1)):
        alpha = rng.choice(ALPHAS)
        plain = gen_plain(rng, 0, rng.choice([1, 2, 3]), alpha, [rng.choice([3, 6, 10])])
        c = _case(rng, plain, rng.choice(STYLES))
        lines = c["lines"]
        for _k in range(rng.randint(1, 3)):
            if not lines:
                break
            i = rng.randrange(len(lines))
            r = rng.random()
            if r < 0.7:
                p = rng.randint(0, len(lines[i]))
                lines[i] = lines[i][:p] + rng.choice(inserts) + lines[i][p:]
            elif r < 0.85 and lines[i]:
                p = rng.randrange(len(lines[i]))
                lines[i] = lines[i][:p] + lines[i][p + 1:]
            else:
                lines.insert(i, rng.choice(["}", "{", "", "  ", "# c", "\""]))
        cases.append({"lines": lines})
    # every string over a 7-symbol alphabet up to length 4 (quick) / 5 (thorough), as one line
    import itertools
    for n in range(1, (5 if big else 4) + 1):
        for t in itertools.product('a {};"\t', repeat=n):
            cases.append({"lines": ["".join(t)]})
    return cases


def run_raw(case):
    return _observe(case["lines"])


def lit_raw(c, o):
    return "(%s, %s)" % (common.listlit([_s(l) for l in c["lines"]]), _obslit(o))


def nontrivial_raw(c, o):
    t = "\n".join(c["lines"])
    if o["conv"] is not None and len(o["conv"]) >= 2 and ('"' in t or "'" in t or "\t" in t or t.count("}") != t.count("{")):
        return tuple(c["lines"])
    return None


def describe_raw(c, o):
    return {"lines": c["lines"], "convert_junos_to_ios": o["conv"] if o["conv"] is not None else "raised",
            "get_text": (o["f0"][0] if o["f0"] else "raised"), "parents": (o["f0"][1] if o["f0"] else None), "factory_same": o["f0"] == o["f1"]}


PRE = ("From Coq Require Import NArith List. Import ListNotations. "
       "Require Import CCP.Lib.PyStr CCP.Lib.Res CCP.Model.Brace CCP.Corr.C08.")
STREAMS = [
    Stream("tree", gen_tree, run_tree, lit_tree, preamble=PRE, ctype="case08t", agree="agree08t", show="show08t",
           nontrivial=nontrivial_tree, describe=describe_tree, shard=120,
           rule="renderings of statement trees (complete: flattened tree and parents demanded; closing brace missing: must raise)"),
    Stream("raw", gen_raw, run_raw, lit_raw, preamble=PRE, ctype="case08r", agree="agree08r", show="show08r",
           nontrivial=nontrivial_raw, describe=describe_raw, shard=250,
           rule="arbitrary line lists: fidelity of the scanner model (pins pyparsing)"),
]

TECHNIQUE = ("Coq proofs (unbounded: all trees, all layouts of the stated family) about a hand-written scanner model of pyparsing's nested_expr + "
             "BraceParse; vm_compute correspondence of convert_junos_to_ios / CiscoConfParse(syntax='junos') (texts, parents, children) incl. exhaustive small trees")
LEVEL_TEXT = ("Machine-checked theorems (Coq 8.16.1, closed under the global context): for every statement tree and every well-formed layout of it "
              "the brace parser returns exactly the flattened tree (4 spaces per enclosing block, statement text unchanged, source order, no line for a "
              "closing brace); the parent rule applied to that result gives, for every line, the statement that opened its innermost block; "
              "a rendering with any closing brace missing raises. Layout white space may be spaces, tabs, LF, CR in any arrangement.")
LEVEL_NOTE = ("The theorems are about Model/Brace.v (hand model incl. the third-party pyparsing scanner), tied to the running code by two correspondence "
              "streams and by tables re-read on every run. Inputs outside the quantifier (quotes at token start, braces in quotes, non-ASCII, extra closers) are tested for model fidelity only.")
