"""C17 — Cisco password helpers: type 7 decrypts to the original; type 5/8/9 verify."""
import hashlib
import hmac
import string

from runner import Stream
import common

ID = "C17"
LEVEL = "proof"
PROPS = "Props/C17.vo"
MODEL_TARGETS = ["Corr/C17.vo"]
OBLIGATION_FILES = ["Props/C17.v"]
ANCHORS = [("ciscoconfparse2/ciscoconfparse2.py", "CiscoPassword")]
RULE = ("stream t7ref: every reference salt 0..52 x plaintext lengths {1,2,3,52,53,54,126,127} + random lengths (thorough tier: the complete salt x length grid "
        "0..52 x 1..127), and every length 1..127 at a random salt, plaintext over printable ASCII minus ?\" (backslash included); the harness' own type-7 encoder (hard-coded Cisco key) produces the string, "
        "the real decrypt_type_7 decodes it; Coq checks model-encoder = harness encoding (pins the xlat table read from the source), model decrypt7 = "
        "implementation, and implementation = plaintext. stream t7lib: decrypt_type_7(encrypt_type_7(p)) with passlib's random salt, accepted and rejected "
        "p (length 128+, ?, \"), output must be encrypt7 <its salt> p. stream t7passlib: passlib's encoder forced to each salt 0..52 vs the model's encrypt7. "
        "stream fmt89: encrypt_type_8/9 output vs the model's \"$k$salt$\" + Cisco-base64(digest)[:-1] formatting where the digest is recomputed from the "
        "embedded salt by an independent KDF (pure-Python PBKDF2 over hmac/sha256; OpenSSL scrypt via hashlib). aux: type 5 vs a pure-Python md5-crypt. "
        "non-trivial = accepted password whose keystream wraps past index 52 or a boundary length (t7), every accepted hash (fmt89); distinct by "
        "(salt, length class) / (kind, length class, character class).")
EXHAUSTIVE = {"quick": False, "thorough": False}
TRUSTED = [
    "Coq 8.16.1 kernel incl. vm_compute (no native_compute)",
    "hand-written Gallina model coq/Model/Pw7.v (pwd_check, decrypt_type_7, reference type-7 encoder, base64 + alphabet translation + $8$/$9$ layout), "
    "tied to the running code by this correspondence",
    "harness/gen_c17.py: xlat tuple, wrap modulus, invalid_chars, length bound, both base-64 alphabets and KDF parameters read from the source by ast on every run",
    "correspondence driver harness/props/c17.py: its own type-7 encoder (hard-coded Cisco key), pure-Python PBKDF2-HMAC-SHA256 and md5-crypt, hashlib.scrypt (OpenSSL)",
    "NOT proved: that type 5/8/9 outputs verify under MD5-crypt / PBKDF2-HMAC-SHA256 / scrypt - decided by recomputation on the generated cases only "
    "(the digest enters the model as an input)",
]
ASSUMPTIONS = ["passwords are str over printable ASCII (non-ASCII passwords are UTF-8 encoded by passlib and outside the property)",
               "the empty password (accepted by pwd_check in spite of its message) is outside the property's quantifier (length 1..127)",
               "hashlib.sha256 / hashlib.md5 / hmac / OpenSSL scrypt are correct reference primitives"]

KEY = "dsfd;kfoA,.iyewrkldJKDHSUBsgvca69834ncxv9873254k;fg87"     # the Cisco type-7 key, independent of /repo
PRINTABLE = [c for c in (string.digits + string.ascii_letters + string.punctuation + " ")]
ALLOWED = [c for c in PRINTABLE if c not in '?"\\']
ALLOWED_BS = [c for c in PRINTABLE if c not in '?"']          # the property's alphabet (contains the backslash)
CISCO64 = "./0123456789ABCDEFGHIJKLMNOPQRSTUVWXYZabcdefghijklmnopqrstuvwxyz"


def ref_encrypt7(salt, pw):
    """independent reference type-7 encoder"""
    return "%02d" % salt + "".join("%02X" % (ord(c) ^ ord(KEY[(salt + i) % 53])) for i, c in enumerate(pw))


def _pw(rng, n, alphabet=ALLOWED_BS):
    return "".join(rng.choice(alphabet) for _ in range(n))


# ------------------------------------------------------------------------------------------ t7ref
def gen_t7ref(rng, tier, escalate):
    big = tier == "thorough" or escalate
    cases = []
    fixed = [1, 2, 3, 52, 53, 54, 126, 127]
    for salt in range(53):
        # thorough: the complete (salt, length) grid 0..52 x 1..127; quick: boundary lengths + random ones
        for n in (range(1, 128) if big else fixed + [rng.randint(4, 125) for _ in range(6)]):
            cases.append({"salt": salt, "pw": _pw(rng, n)})
    for n in range(1, 128):
        for _ in range(4 if big else 1):
            cases.append({"salt": rng.randint(0, 52), "pw": _pw(rng, n)})
    # every allowed character at every key position once (xor with every key byte)
    for salt in range(0, 53, 1 if big else 6):
        cases.append({"salt": salt, "pw": "".join(ALLOWED_BS)})
    # salts the code accepts through the modulo but no reference implementation emits: model encoder only
    for salt in (53, 54, 99):
        cases.append({"salt": salt, "pw": _pw(rng, 5)})
    return cases


def run_t7ref(case):
    from ciscoconfparse2.ciscoconfparse2 import CiscoPassword
    enc = ref_encrypt7(case["salt"], case["pw"])
    try:
        d = CiscoPassword().decrypt_type_7(enc)
    except Exception:
        return {"enc": enc, "dec": None}
    # the other calling form: the encoded string handed to the constructor
    try:
        d2 = CiscoPassword(enc).decrypt_type_7()
    except Exception:
        d2 = None
    if d2 != d:
        return {"enc": enc, "dec": None, "note": "CiscoPassword(ep).decrypt_type_7() gave %r, CiscoPassword().decrypt_type_7(ep) gave %r" % (d2, d)}
    return {"enc": enc, "dec": d if isinstance(d, str) else None}


def lit_t7ref(c, o):
    return "(%d, %s, %s, %s)" % (c["salt"], common.strlit(c["pw"]), common.strlit(o["enc"]), common.optlit(o["dec"], common.strlit))


def _lenclass(n):
    return n if n <= 3 or n >= 126 or 51 <= n <= 55 else ("mid" if n < 51 else "long")


def nontrivial_t7ref(c, o):
    if c["salt"] > 52:
        return None
    n = len(c["pw"])
    if c["salt"] + n > 53 or n in (1, 127):
        return (c["salt"], _lenclass(n))
    return None


def describe_t7ref(c, o):
    return {"salt": c["salt"], "plaintext": c["pw"], "type7_by_reference_encoder": o["enc"],
            "impl_decrypt_type_7": o["dec"] if o["dec"] is not None else "raised"}


# ------------------------------------------------------------------------------------------ t7lib
def gen_t7lib(rng, tier, escalate):
    big = tier == "thorough" or escalate
    cases = []
    for n in range(1, 128):
        for _ in range(6 if big else 2):
            cases.append({"pw": _pw(rng, n, ALLOWED), "kind": "ok"})
    cases.append({"pw": "".join(ALLOWED), "kind": "ok"})
    for n in (1, 2, 60, 126, 127):
        for _ in range(3):
            cases.append({"pw": _pw(rng, n), "kind": "ok-or-backslash"})
    # rejected: too long, or a forbidden character at the first / middle / last position
    for n in (128, 129, 200, 255, 256):
        cases.append({"pw": _pw(rng, n, ALLOWED), "kind": "long"})
    for bad in '?"\\':
        for n in (1, 2, 17, 127):
            for pos in sorted({0, n // 2, n - 1}):
                p = list(_pw(rng, n, ALLOWED))
                p[pos] = bad
                cases.append({"pw": "".join(p), "kind": "bad" + bad})
    cases.append({"pw": "", "kind": "empty"})
    return cases


def run_t7lib(case):
    from ciscoconfparse2.ciscoconfparse2 import CiscoPassword
    cp = CiscoPassword()
    try:
        enc = cp.encrypt_type_7(case["pw"])
    except Exception:
        return None
    if not isinstance(enc, str):
        return {"enc": "", "dec": None}
    try:
        d = cp.decrypt_type_7(enc)
    except Exception:
        d = None
    try:
        d2 = CiscoPassword(enc).decrypt_type_7()
    except Exception:
        d2 = None
    if d2 != d:
        return {"enc": enc, "dec": None, "note": "constructor form gave %r, argument form %r" % (d2, d)}
    return {"enc": enc, "dec": d if isinstance(d, str) else None}


def lit_t7lib(c, o):
    if o is None:
        return "(%s, None)" % common.strlit(c["pw"])
    return "(%s, Some (%s, %s))" % (common.strlit(c["pw"]), common.strlit(o["enc"]), common.optlit(o["dec"], common.strlit))


def nontrivial_t7lib(c, o):
    n = len(c["pw"])
    if o is None:
        return ("rejected", c["kind"], _lenclass(n))
    if n == 0:
        return None
    return ("ok", o["enc"][:2], _lenclass(n))


def describe_t7lib(c, o):
    return {"password": c["pw"], "impl_encrypt_type_7": "raised" if o is None else o["enc"],
            "impl_decrypt_of_that": None if o is None else (o["dec"] if o["dec"] is not None else "raised")}


# ------------------------------------------------------------------------------------------ t7passlib
def gen_t7pl(rng, tier, escalate):
    big = tier == "thorough" or escalate
    cases = []
    for salt in range(53):
        for n in [1, 53, 127] + [rng.randint(2, 126) for _ in range(40 if big else 3)]:
            cases.append({"salt": salt, "pw": _pw(rng, n)})
    return cases


def run_t7pl(case):
    from passlib.hash import cisco_type7
    return cisco_type7.using(salt=case["salt"]).hash(case["pw"])


def lit_t7pl(c, o):
    return "(%d, %s, %s)" % (c["salt"], common.strlit(c["pw"]), common.strlit(o))


# ------------------------------------------------------------------------------------------ fmt89
def pbkdf2_sha256_1block(pw, salt, rounds):
    """PBKDF2-HMAC-SHA256, first block (dklen = 32), written over hmac only (independent of hashlib.pbkdf2_hmac)"""
    mac = hmac.new(pw, None, hashlib.sha256)

    def prf(m):
        h = mac.copy()
        h.update(m)
        return h.digest()
    u = prf(salt + b"\x00\x00\x00\x01")
    t = int.from_bytes(u, "big")
    for _ in range(rounds - 1):
        u = prf(u)
        t ^= int.from_bytes(u, "big")
    return t.to_bytes(32, "big")


def gen_fmt89(rng, tier, escalate):
    big = tier == "thorough" or escalate
    cases = []
    for kind in (8, 9):
        for n in [1, 2, 3, 31, 32, 33, 63, 64, 65, 126, 127] + [rng.randint(4, 125) for _ in range(300 if big else 50)]:
            cases.append({"kind": kind, "pw": _pw(rng, n, ALLOWED), "cl": "ok"})
        cases.append({"kind": kind, "pw": "".join(ALLOWED), "cl": "ok"})
        for p, cl in ((_pw(rng, 128, ALLOWED), "long"), ("a?b", "bad?"), ('"', 'bad"'), ("x" * 127 + '"', 'bad"'), ("a\\b", "bad\\")):
            cases.append({"kind": kind, "pw": p, "cl": cl})
    return cases


def run_fmt89(case):
    from ciscoconfparse2.ciscoconfparse2 import CiscoPassword
    cp = CiscoPassword()
    try:
        out = cp.encrypt_type_8(case["pw"]) if case["kind"] == 8 else cp.encrypt_type_9(case["pw"])
    except Exception:
        return None
    if not isinstance(out, str):
        return {"out": "", "salt": "", "digest": []}
    parts = out.split("$")
    if len(parts) != 4:
        return {"out": out, "salt": "", "digest": []}
    salt = parts[2]
    try:
        if case["kind"] == 8:
            dg = pbkdf2_sha256_1block(case["pw"].encode(), salt.encode(), 20000)
        else:
            dg = hashlib.scrypt(case["pw"].encode(), salt=salt.encode(), n=16384, r=1, p=1, dklen=32)
    except Exception:
        return {"out": out, "salt": salt, "digest": []}
    return {"out": out, "salt": salt, "digest": list(dg)}


def lit_fmt89(c, o):
    k = ord(str(c["kind"]))
    if o is None:
        return "(%d, %s, None)" % (k, common.strlit(c["pw"]))
    dg = "[" + "; ".join(str(b) for b in o["digest"]) + "]" if o["digest"] else "[]"
    return "(%d, %s, Some (%s, %s, %s))" % (k, common.strlit(c["pw"]), common.strlit(o["out"]), common.strlit(o["salt"]), dg)


def nontrivial_fmt89(c, o):
    if o is None:
        return (c["kind"], "rejected", c["cl"])
    return (c["kind"], len(c["pw"]), o["salt"][:2])


def describe_fmt89(c, o):
    return {"type": c["kind"], "password": c["pw"], "impl_output": "raised" if o is None else o["out"],
            "digest_recomputed_from_embedded_salt": None if o is None else bytes(o["digest"]).hex()}


PRE = ("From Coq Require Import NArith List Bool. Import ListNotations. "
       "Require Import CCP.Lib.PyStr CCP.Lib.Res CCP.Model.Pw7 CCP.Corr.C17. Open Scope N_scope.")
STREAMS = [
    Stream("t7ref", gen_t7ref, run_t7ref, lit_t7ref, preamble=PRE, ctype="N * str * str * option str", agree="agree17ref", show="model17ref",
           nontrivial=nontrivial_t7ref, describe=describe_t7ref, shard=100, rule="reference-encoded strings at all 53 salts -> decrypt_type_7"),
    Stream("t7lib", gen_t7lib, run_t7lib, lit_t7lib, preamble=PRE, ctype="str * option (str * option str)", agree="agree17lib", show="model17lib",
           nontrivial=nontrivial_t7lib, describe=describe_t7lib, shard=100, rule="decrypt_type_7(encrypt_type_7(p)), accepted and rejected p"),
    Stream("t7passlib", gen_t7pl, run_t7pl, lit_t7pl, preamble=PRE, ctype="N * str * str", agree="agree17pl", show="model17pl",
           nontrivial=lambda c, o: (c["salt"], _lenclass(len(c["pw"]))), shard=100, rule="passlib cisco_type7 at each salt vs encrypt7"),
    Stream("fmt89", gen_fmt89, run_fmt89, lit_fmt89, preamble=PRE, ctype="N * str * option (str * str * list N)", agree="agree17fmt", show="model17fmt",
           nontrivial=nontrivial_fmt89, describe=describe_fmt89, shard=60, rule="type 8/9 output = layout(Cisco-base64(independent KDF(pw, embedded salt)))"),
]


# ------------------------------------------------------------------------------------------ aux: type 5 (md5-crypt), Python only
_ITOA64 = "./0123456789ABCDEFGHIJKLMNOPQRSTUVWXYZabcdefghijklmnopqrstuvwxyz"


def md5_crypt(pw, salt, magic=b"$1$"):
    """Poul-Henning Kamp's md5-crypt, written from the algorithm description (independent of passlib)."""
    md5 = hashlib.md5
    alt = md5(pw + salt + pw).digest()
    ctx = pw + magic + salt
    n = len(pw)
    while n > 0:
        ctx += alt[:min(16, n)]
        n -= 16
    n = len(pw)
    while n:
        ctx += b"\x00" if n & 1 else pw[:1]
        n >>= 1
    final = md5(ctx).digest()
    for i in range(1000):
        c = b""
        c += pw if i & 1 else final
        if i % 3:
            c += salt
        if i % 7:
            c += pw
        c += final if i & 1 else pw
        final = md5(c).digest()

    def to64(v, k):
        s = ""
        for _ in range(k):
            s += _ITOA64[v & 0x3F]
            v >>= 6
        return s
    out = ""
    for a, b, c in ((0, 6, 12), (1, 7, 13), (2, 8, 14), (3, 9, 15), (4, 10, 5)):
        out += to64((final[a] << 16) | (final[b] << 8) | final[c], 4)
    out += to64(final[11], 2)
    return (magic + salt).decode() + "$" + out


def aux(rng, tier, escalate):
    """type 5: format `$1$<4 salt chars>$<22 chars>` and equality with an independent md5-crypt recomputed from the embedded salt;
    rejected passwords raise (test only, not a theorem)."""
    common.setup_impl()
    from ciscoconfparse2.ciscoconfparse2 import CiscoPassword
    n = 150 * (6 if tier == "thorough" or escalate else 1)
    failures = []
    ev = 0
    lens = [1, 2, 15, 16, 17, 31, 32, 33, 126, 127]
    for t in range(n):
        ln = lens[t] if t < len(lens) else rng.randint(1, 127)
        pw = _pw(rng, ln, ALLOWED)
        ev += 1
        try:
            out = CiscoPassword().encrypt_type_5(pw)
        except Exception as e:
            failures.append({"case": {"type": 5, "password": pw}, "observed": "raised %s" % type(e).__name__, "expected": "$1$salt$hash",
                             "detail": "encrypt_type_5 raised on an acceptable password"})
            continue
        parts = out.split("$") if isinstance(out, str) else []
        ok = (len(parts) == 4 and parts[0] == "" and parts[1] == "1" and len(parts[2]) == 4 and all(c in _ITOA64 for c in parts[2])
              and len(parts[3]) == 22 and all(c in _ITOA64 for c in parts[3]))
        exp = md5_crypt(pw.encode(), parts[2].encode()) if ok else "$1$<4 salt chars>$<22 hash chars>"
        if not ok or exp != out:
            failures.append({"case": {"type": 5, "password": pw}, "observed": out, "expected": exp,
                             "detail": "type 5 output is not the MD5-crypt of the password under its embedded 4-character salt"})
    for pw in ("a?b", 'a"b', "x" * 128):
        ev += 1
        try:
            out = CiscoPassword().encrypt_type_5(pw)
            failures.append({"case": {"type": 5, "password": pw}, "observed": out, "expected": "rejected",
                             "detail": "a password the property requires to be rejected was hashed"})
        except Exception:
            pass
    return {"evaluations": ev, "failures": failures,
            "note": "type 5 output vs an independent pure-Python md5-crypt recomputed from the embedded salt (test, not proof)"}


TECHNIQUE = ("Coq proof (all salts < 100, all non-empty byte strings) of the type-7 round trip about a hand-written Gallina model whose xlat table is re-read "
             "from the source; base-64/format facts proved; KDF clause decided by recomputation with independent implementations inside a vm_compute correspondence")
LEVEL_TEXT = ("Machine-checked theorems (Coq 8.16.1, closed under the global context) about Model/Pw7.v: decrypt7 (encrypt7 salt pw) = pw for EVERY salt < 100 and "
              "EVERY non-empty byte string, hence for every password pwd_check accepts; the xlat tuple in the source is the Cisco key; pwd_check accepts exactly "
              "length <= 127 without the characters of invalid_chars, which contain ? and \"; the std->Cisco base-64 translation is a bijection of the two "
              "64-character alphabets and translate(b64encode(d))[:-1] of any 32-byte digest is the 43-character unpadded base-64 of d in Cisco's alphabet. "
              "Correspondence: reference-encoded strings at all 53 salts, passlib's encoder at all 53 salts, the library round trip, and type 8/9 outputs "
              "re-derived from an independently recomputed digest.")
LEVEL_NOTE = ("PARTIAL: the clause that type 5/8/9 outputs verify under MD5-crypt / PBKDF2-HMAC-SHA256 (20000) / scrypt (16384,1,1) is NOT proved; it is decided "
              "on the generated cases only, by recomputation from the embedded salt with independent implementations (pure-Python md5-crypt and PBKDF2 over "
              "hmac/sha256 written for the harness, OpenSSL scrypt via hashlib); for types 8/9 the recomputed digest is an input of the Coq model, which proves/"
              "computes only the base-64, alphabet translation and $k$salt$hash layout. Trusted: Coq kernel + vm_compute, the hand-written model, "
              "harness/gen_c17.py (ast extraction of tables), the driver and its reference encoders. Non-ASCII and empty passwords are outside the property.")
