"""C10 — Diff output transforms the old config into the new; rollback is its mirror (partial claim)."""
import contextlib
import shutil
import io
import os
import re
import tempfile
import zlib

from runner import Stream
import common

ID = "C10"
LEVEL = "proof"
PROPS = "Props/C10.vo"
MODEL_TARGETS = ["Corr/C10.vo"]
OBLIGATION_FILES = ["Props/C10.v"]
ANCHORS = [("ciscoconfparse2/ciscoconfparse2.py", "Diff.__init__"), ("ciscoconfparse2/ciscoconfparse2.py", "Diff.get_diff"),
           ("ciscoconfparse2/ciscoconfparse2.py", "Diff.get_rollback"), ("ciscoconfparse2/cli_script.py", "CliApplication.diff_command"),
           ("ciscoconfparse2/cli_script.py", "ArgParser.build_command_args_diff")]
RULE = ("stream neutral: pairs of indentation-style configs built as random trees (depth 0..3) over a pool of realistic lines, new = edit of old "
        "(lines/sections removed, added, moved, siblings reordered), independent, identical, or empty/absent; rendered with varying indentation widths, "
        "internal/trailing whitespace, blank lines, duplicated siblings and re-opened sections; given as list / tuple / str (\\n, \\r\\n, trailing newline) / file / None; "
        "syntax in ios,nxos,iosxr,asa,junos. A case is kept only if it is option-neutral for hier_config's options of that syntax, re-checked at run time "
        "(no per-line/full-text substitution changes a line, no banner, no ACL, no negated/default line, no indent_adjust match, and no lineage rule of any "
        "option list matches any path of either tree or its negation). The real get_diff()/get_rollback() output is read back into commands inside Coq and "
        "(1) checked against the property clauses themselves and (2) compared as a command set with the model. non-trivial = non-empty diff; distinct by (old,new,syntax). "
        "stream device: configs WITH option-triggering lines (idempotent commands, sectional exiting/overwrite, ACLs, banners, negated lines, duplicate children): "
        "only the device-independent clauses (all input forms and the CLI print the same diff/rollback, rollback(old,new)=diff(new,old), diff(x,x)=[]). File-form inputs are written to a path that is the same for every case run by one worker process (contents rewritten from case to case).")
EXHAUSTIVE = {"quick": False, "thorough": False}
TRUSTED = [
    "Coq 8.16.1 kernel incl. vm_compute",
    "hand-written Gallina model coq/Model/Diff.v of the Diff wrapper and of hier_config's loader / config_to_get_to / rendering (tied by this correspondence only; hier_config is third-party code outside /repo)",
    "the run-time option-neutrality gate in harness/props/c10.py (uses hier_config.options.options_for and hier_config's own text_match rules)",
    "correspondence driver harness/props/c10.py and the Gallina literal emitter",
    "device stream: equalities between outputs of the real code only (test, not proof)",
]
ASSUMPTIONS = ["theorems: no line of either config starts with the negation prefix 'no ' (then 'no x' can only mean removal of x)",
               "hier_config option rules do not apply to the lines (option-neutral fragment); hier_config's option semantics are neither modelled nor verified",
               "os.linesep is '\\n'"]
TECHNIQUE = ("Coq proofs (unbounded, all configs) about an executable model of the Diff wrapper + hier_config's option-neutral core; "
             "vm_compute correspondence that checks the real output against the property clauses and against the model")
LEVEL_TEXT = ("Machine-checked theorems (Coq 8.16.1, closed under the global context) for ALL pairs of configs without negated lines, about the modelled core: applying the printed diff "
              "to the old config's set of hierarchical lines gives exactly the new config's set; every addition is absent from old (or is the printed context of a later command) and in new; "
              "every removal names a line present in old and absent from new; self-diff is empty; rollback(old,new) = diff(new,old); list/tuple/str/file/None forms denote the same config. "
              "PARTIAL: the model covers the Diff wrapper and hier_config's option-neutral core only.")
LEVEL_NOTE = ("Partial by design. Proved: the clauses above for the Gallina model (Model/Diff.v). Tested only: that the real Diff + third-party hier_config agree with the model — on "
              "option-neutral configs (gate evaluated at run time against hier_config's option tables) the real output is checked in Coq against the property clauses and the model; "
              "on configs with option-triggering lines only the device-independent equalities (input forms, CLI=API, mirror, self-diff) are tested on the real code. "
              "hier_config's option semantics (idempotent commands, sectional exiting/overwrite, ordering, ACL numbering, banners, substitutions) are neither modelled nor verified. "
              "Trusted: Coq kernel + vm_compute, the hand model, the neutrality gate, the driver.")

SYNTAXES = ["ios", "nxos", "iosxr", "asa", "junos"]

# --------------------------------------------------------------------------- line pool
TOP = ["hostname r1", "hostname r2", "interface GigabitEthernet0/1", "interface GigabitEthernet0/2", "interface Loopback0",
       "router ospf 1", "router bgp 65000", "vlan 10", "vlan 20", "line vty 0 4", "ip domain-name example.com",
       "snmp-server community public RO", "ntp server 10.0.0.1", "logging host 10.1.1.1", "spanning-tree mode rapid-pvst",
       "class-map match-any VOICE", "policy-map QOS", "alpha 1", "alpha 2", "beta", "gamma x", "vrf definition RED", "key chain K1",
       "aaa new-model", "ip cef", "mpls ldp router-id Loopback0"]
MID = ["description uplink", "mtu 9000", "mtu 1500", "speed 1000", "duplex full", "ip address 10.0.0.1 255.255.255.0",
       "switchport mode trunk", "spanning-tree portfast", "network 10.0.0.0 0.255.255.255 area 0", "passive-interface default",
       "neighbor 10.0.0.2 remote-as 65001", "address-family ipv4", "match dscp ef", "class VOICE", "priority percent 10",
       "name users", "transport input ssh", "exec-timeout 5 0", "delta", "eps 9", "zeta z", "eta", "rd 65000:1", "key 1",
       "service-policy output QOS", "load-interval 30", "bfd interval 50 min_rx 50 multiplier 3"]
LOW = ["neighbor 10.0.0.2 activate", "maximum-prefix 100", "police 8000", "set dscp ef", "theta", "iota 3", "kappa",
       "key-string secret", "route-target export 65000:1", "route-target import 65000:1", "lambda 1 2", "mu"]


def _pick_level(rng, depth):
    r = rng.random()
    if depth == 0:
        pool = TOP if r < 0.8 else MID
    elif depth == 1:
        pool = MID if r < 0.75 else (LOW if r < 0.9 else TOP)
    else:
        pool = LOW if r < 0.7 else MID
    return pool


def gen_tree(rng, depth=0, maxk=4):
    if depth > 3:
        return []
    k = rng.choice([0, 1, 1, 2, 2, 3, maxk]) if depth else rng.randint(0, maxk)
    out, used = [], set()
    for _ in range(k):
        w = rng.choice(_pick_level(rng, depth))
        if w in used:
            continue
        used.add(w)
        out.append([w, gen_tree(rng, depth + 1, 3) if rng.random() < (0.55 if depth < 2 else 0.3) else []])
    return out


def mutate(rng, t, depth=0):
    out = []
    for w, ch in t:
        r = rng.random()
        if r < 0.18:
            continue                                  # remove the line with its whole subtree
        out.append([w, mutate(rng, ch, depth + 1)])
    if rng.random() < 0.45:
        have = {w for w, _ in out}
        for _ in range(rng.randint(1, 2)):
            w = rng.choice(_pick_level(rng, depth))
            if w not in have:
                have.add(w)
                out.insert(rng.randrange(len(out) + 1), [w, gen_tree(rng, depth + 1, 2) if rng.random() < 0.4 else []])
    if len(out) > 1 and rng.random() < 0.2:
        rng.shuffle(out)                              # reorder siblings
    if len(out) > 1 and rng.random() < 0.15:          # move a line (with subtree) under a sibling
        i = rng.randrange(len(out))
        moved = out.pop(i)
        tgt = rng.choice(out)
        if moved[0] not in {w for w, _ in tgt[1]}:
            tgt[1].append(moved)
        else:
            out.insert(i, moved)
    return out


def render_tree(rng, t, style):
    """style: dict(width, jitter, blanks, ws, dup, reopen)"""
    lines = []

    def rec(nodes, ind):
        for w, ch in nodes:
            text = w
            if style["ws"] and rng.random() < 0.25:
                text = text.replace(" ", rng.choice(["  ", "   ", " \t "]), 1)
            if style["ws"] and rng.random() < 0.15:
                text = text + rng.choice([" ", "  ", "\t"])
            lines.append(" " * ind + text)
            if style["dup"] and rng.random() < 0.12:
                lines.append(" " * ind + w)           # duplicated sibling: merged by the loader
            step = style["width"] + (rng.randint(0, 2) if style["jitter"] else 0)
            rec(ch, ind + step)
            if style["blanks"] and rng.random() < 0.12:
                lines.append(rng.choice(["", " ", "   "]))
    rec(t, 0)
    if style["reopen"] and t and rng.random() < 0.5:
        # re-open an earlier top-level section and add one more child there (merge into the existing node)
        w, ch = rng.choice(t)
        lines.append(w)
        lines.append(" " * style["width"] + rng.choice(LOW))
    return lines


def _style(rng):
    return {"width": rng.choice([1, 1, 2, 3, 4]), "jitter": rng.random() < 0.2, "blanks": rng.random() < 0.3,
            "ws": rng.random() < 0.3, "dup": rng.random() < 0.25, "reopen": rng.random() < 0.15}


def _as_form(rng, lines, allow_none=True):
    r = rng.random()
    if not lines and allow_none and r < 0.5:
        return {"form": "none"}
    if r < 0.55:
        return {"form": "list", "lines": lines}
    if r < 0.65:
        return {"form": "tuple", "lines": lines}
    if r < 0.85:
        sep = rng.choice(["\n", "\n", "\r\n"])
        text = sep.join(lines) + (sep if rng.random() < 0.5 and lines else "")
        return {"form": "str", "text": text}
    return {"form": "file", "text": "\n".join(lines) + ("\n" if rng.random() < 0.7 else "")}


def form_text(f):
    if f["form"] == "none":
        return ""
    if f["form"] in ("list", "tuple"):
        return "\n".join(f["lines"])
    return f["text"]


# --------------------------------------------------------------------------- option-neutrality gate (run time)
RULE_KEYS = ["sectional_overwrite", "sectional_overwrite_no_negate", "ordering", "parent_allows_duplicate_child",
             "sectional_exiting", "idempotent_commands_blacklist", "idempotent_commands", "negation_default_when",
             "negation_negate_with"]
_BANNED_PREFIX = ("no ", "default ", "banner ", "ip access-list", "ipv4 access-list", "ipv6 access-list")
_opt_cache = {}


def _os_of(syntax):
    return syntax if syntax in ("ios", "nxos", "iosxr") else "ios"


def _options(os_):
    if os_ not in _opt_cache:
        from hier_config.options import options_for
        _opt_cache[os_] = options_for(os_)
    return _opt_cache[os_]


def _rule_hits(rule, pth):
    from hier_config.child import HConfigChild
    lin = rule.get("lineage", [])
    if rule.get("match_leaf", False):
        pth = pth[-1:]
    if len(lin) != len(pth):
        return False
    for lr, text in zip(lin, pth):
        _, tm = HConfigChild._explode_lineage_rule(lr)
        cands = {text}
        if text.startswith("no "):
            cands.add(text[3:])
        if text.startswith("default "):
            cands.add(text[8:])
        if not any(HConfigChild._lineage_eval_text_match_rules(tm, t) for t in cands):
            return False
    return True


def neutral(old_text, new_text, syntax):
    """True iff hier_config's option tables for this syntax cannot influence the diff of this pair."""
    import hier_config
    os_ = _os_of(syntax)
    opts = _options(os_)
    if str(opts.get("negation", "no")) != "no":
        return False
    for text in (old_text, new_text):
        for sub in opts["full_text_sub"]:
            if re.sub(sub["search"], sub["replace"], text) != text:
                return False
        for raw in text.splitlines():
            if raw.startswith("banner "):
                return False
            words = raw.split()
            if not words:
                continue
            body = " ".join(words)
            if body.startswith(_BANNED_PREFIX):
                return False
            line = " " * (len(raw) - len(raw.lstrip())) + body
            for sub in opts["per_line_sub"]:
                if re.sub(sub["search"], sub["replace"], line) != line:
                    return False
            for ex in opts["indent_adjust"]:
                if re.search(ex["start_expression"], body) or re.search(ex["end_expression"], body):
                    return False
    rules = [r for k in RULE_KEYS for r in opts.get(k, [])]
    for text in (old_text, new_text):
        try:
            host = hier_config.Host("gate", os_, {})
            host.load_running_config(text)
            nodes = list(host.running_config.all_children())
        except BaseException:
            return False
        for ch in nodes:
            pth = list(ch.path())
            for p in (pth, pth[:-1] + ["no " + pth[-1]]):
                for r in rules:
                    if _rule_hits(r, p):
                        return False
    return True


# --------------------------------------------------------------------------- stream 1: neutral
def gen_neutral(rng, tier, escalate):
    n = 2000 * (4 if (tier == "thorough" or escalate) else 1)
    cases, tries = [], 0
    while len(cases) < n and tries < n * 12:
        tries += 1
        old = gen_tree(rng)
        r = rng.random()
        if r < 0.62:
            new = mutate(rng, old)
        elif r < 0.80:
            new = gen_tree(rng)
        elif r < 0.86:
            new = [list(x) for x in old]            # identical
        elif r < 0.93:
            new = []
        else:
            old, new = [], gen_tree(rng)
        lo = render_tree(rng, old, _style(rng))
        ln = render_tree(rng, new, _style(rng))
        syntax = rng.choice(SYNTAXES)
        fo, fn = _as_form(rng, lo), _as_form(rng, ln)
        if not neutral(form_text(fo), form_text(fn), syntax):
            continue
        cases.append({"old": fo, "new": fn, "syntax": syntax})
    return cases


def _mk_arg(f, tmpdir, name):
    if f["form"] == "none":
        return None
    if f["form"] == "list":
        return list(f["lines"])
    if f["form"] == "tuple":
        return tuple(f["lines"])
    if f["form"] == "str":
        return f["text"]
    p = os.path.join(tmpdir, name)
    with open(p, "w", newline="") as fh:
        fh.write(f["text"])
    return p


@contextlib.contextmanager
def _pid_dir(prefix):
    """A scratch directory whose PATH is the same for every case run by this worker process (the files are rewritten
    with different contents from case to case): a result must depend on what the file holds now, not on its path."""
    d = os.path.join(tempfile.gettempdir(), "%s%d" % (prefix, os.getpid()))
    os.makedirs(d, exist_ok=True)
    try:
        yield d
    finally:
        shutil.rmtree(d, ignore_errors=True)


def _str_is_file(f):
    return f["form"] == "str" and len(f["text"].splitlines()) == 1 and os.path.isfile(f["text"])


def run_neutral(case):
    from ciscoconfparse2.ciscoconfparse2 import Diff
    if _str_is_file(case["old"]) or _str_is_file(case["new"]) or not neutral(form_text(case["old"]), form_text(case["new"]), case["syntax"]):
        return {"neutral": False}
    with _pid_dir("c10_") as td:
        try:
            d = Diff(_mk_arg(case["old"], td, "old.cfg"), _mk_arg(case["new"], td, "new.cfg"), syntax=case["syntax"])
            return {"neutral": True, "diff": list(d.get_diff()), "rollback": list(d.get_rollback())}
        except BaseException as e:
            return {"neutral": True, "raised": type(e).__name__}


def _lines_lit(ls):
    return common.listlit([common.strlit(x) for x in ls])


def _form_lit(f):
    if f["form"] == "none":
        return "FNone"
    if f["form"] == "list":
        return "(FList %s)" % _lines_lit(f["lines"])
    if f["form"] == "tuple":
        return "(FTuple %s)" % _lines_lit(f["lines"])
    if f["form"] == "str":
        return "(FStr %s)" % common.strlit(f["text"])
    return "(FFile %s)" % common.strlit(f["text"])


RAISED = "\x00raised"


def lit_neutral(c, o):
    if not o.get("neutral"):
        return "(FNone, FNone, [], [])"
    if "raised" in o:
        return "(%s, %s, %s, %s)" % (_form_lit(c["old"]), _form_lit(c["new"]), _lines_lit([RAISED]), _lines_lit([RAISED]))
    for l in o["diff"] + o["rollback"]:
        if not isinstance(l, str):
            return "(%s, %s, %s, %s)" % (_form_lit(c["old"]), _form_lit(c["new"]), _lines_lit([RAISED]), _lines_lit([RAISED]))
    return "(%s, %s, %s, %s)" % (_form_lit(c["old"]), _form_lit(c["new"]), _lines_lit(o["diff"]), _lines_lit(o["rollback"]))


def nontrivial_neutral(c, o):
    if not o.get("neutral") or "raised" in o or not o["diff"]:
        return None
    return zlib.crc32(repr((form_text(c["old"]).split(), form_text(c["new"]).split(), c["syntax"])).encode())


def describe_neutral(c, o):
    return {"old": c["old"], "new": c["new"], "syntax": c["syntax"], "impl": o}


# --------------------------------------------------------------------------- stream 2: device (option-triggering lines)
DEV_BLOCKS = {
    "ios": [
        ["interface GigabitEthernet0/1", " description a", " ip address 10.0.0.1 255.255.255.0", " no shutdown"],
        ["interface GigabitEthernet0/1", " description b", " ip address 10.0.0.2 255.255.255.0", " shutdown"],
        ["interface GigabitEthernet0/2", " no ip address", " logging event link-status"],
        ["vlan 10", " name users"], ["vlan 10", " name servers"], ["no vlan filter X vlan-list 10"],
        ["router bgp 65000", " template peer-policy P", "  send-community", " exit-peer-policy", " address-family ipv4", "  neighbor 1.1.1.1 activate", " exit-address-family"],
        ["router bgp 65000", " template peer-session S", "  remote-as 1", " address-family ipv4", "  neighbor 2.2.2.2 activate"],
        ["ip access-list extended FOO", " permit ip any any", " remark x", " deny tcp any any eq 80"],
        ["ip access-list extended FOO", " 10 permit ip any any", " 20 deny udp any any"],
        ["ipv6 access-list V6", " sequence 10 permit ipv6 any any", " permit tcp any any"],
        ["version 15.1"], ["end"], ["! a comment"], ["ntp clock-period 123"], ["Building configuration..."],
        ["banner motd ^C", "hello world", " indented", "^C"], ["banner login #", "x", "#"],
        ["no ip http server"], ["default interface GigabitEthernet0/3"], ["hostname r1"], ["hostname r2"],
        ["interface GigabitEthernet0/9", " description [core] uplink to the aggregation layer [red] and beyond the 80th column of an ordinary terminal window"],
        ["ip as-path access-list 20 permit ^(65001|65002|65003|65004|65005|65006|65007|65008)_[a-f]+_(64512|64513|64514)$"],
    ],
    "nxos": [
        ["interface Ethernet1/1", " description a", " ip ospf bfd", " ip address 10.0.0.1/24"],
        ["interface Ethernet1/1", " description b", " ip ospf passive-interface", " mtu 9216"],
        ["router bgp 65000", " address-family ipv4 unicast", "  maximum-paths ibgp 2", " neighbor 1.1.1.1", "  address-family ipv4 unicast", "   send-community"],
        ["router bgp 65000", " router-id 1.1.1.1", " vrf RED", "  address-family ipv4 unicast", "   maximum-paths ibgp 4"],
        ["line vty", " session-limit 5", " exec-timeout 10"], ["line vty", " session-limit 7"],
        ["interface Ethernet1/9", " description [bold]x[/bold] a very long description that runs past the eightieth column of the terminal, [a-f] included"],
        ["hostname n1"], ["hostname n2"], ["no feature telnet"], ["feature bgp"], ["!Command: show running-config"],
        ["version 9.3(5)"], ["banner motd #", "hi", "#"], ["vlan 10", " name a"], ["vlan 10", " name b"],
    ],
    "iosxr": [
        ["route-policy RP", "  if destination in A then", "    pass", "  endif", "  if destination in B then", "    drop", "  endif", "end-policy"],
        ["route-policy RP", "  pass", "end-policy"],
        ["prefix-set A", "  10.0.0.0/8,", "  11.0.0.0/8", "end-set"], ["prefix-set A", "  12.0.0.0/8", "end-set"],
        ["template T1", " x 1", " y 2", "end-template"], ["template T1", " x 2", "end-template"],
        ["interface GigabitEthernet0/0/0/0", " description a", " ipv4 address 10.0.0.1 255.255.255.0", " shutdown"],
        ["interface GigabitEthernet0/0/0/0", " description b", " ipv4 address 10.0.0.2 255.255.255.0"],
        ["ipv4 access-list ACL", " 10 permit ipv4 any any", " 20 deny ipv4 any any"], ["ipv4 access-list ACL", " 10 deny ipv4 any any"],
        ["router bgp 1", " bgp router-id 1.1.1.1", " address-family ipv4 unicast", "  maximum-paths ibgp 2", " neighbor 1.1.1.1", "  remote-as 2"],
        ["hostname x1"], ["hostname x2"], ["no logging console"], ["!! IOS XR Configuration"], ["end"],
    ],
}
DEV_BLOCKS["asa"] = DEV_BLOCKS["ios"]
DEV_BLOCKS["junos"] = DEV_BLOCKS["ios"]


def gen_device(rng, tier, escalate):
    n = 260 * (4 if (tier == "thorough" or escalate) else 1)
    cases = []
    for _ in range(n):
        syntax = rng.choice(SYNTAXES)
        blocks = DEV_BLOCKS[syntax]

        def cfg():
            ls = []
            for b in rng.sample(blocks, rng.randint(0, 5)):
                ls += b
                if rng.random() < 0.3:
                    ls += render_tree(rng, gen_tree(rng, 0, 2), {"width": 1, "jitter": False, "blanks": False, "ws": False, "dup": False, "reopen": False})
            return ls
        old = cfg()
        r = rng.random()
        new = cfg() if r < 0.8 else (list(old) if r < 0.9 else [])
        cases.append({"old": old, "new": new, "syntax": syntax})
    return cases


def _safe(f):
    try:
        return list(f())
    except BaseException as e:
        return [RAISED + ":" + type(e).__name__]


def _cli(method, syntax, fo, fn):
    from ciscoconfparse2.cli_script import ccp_script_entry
    buf = io.StringIO()
    with contextlib.redirect_stdout(buf), contextlib.redirect_stderr(io.StringIO()):
        app = ccp_script_entry("ccp_faked diff -m %s -s %s %s %s" % (method, syntax, fo, fn))
    cmds = [str(x) for x in app.stdout]
    # what the user of `ccp diff` gets is the PRINTED text: after the header lines it must be exactly these commands,
    # one per line, unwrapped and unedited (no console markup, no soft wrapping)
    text = buf.getvalue()
    body = "".join(x + "\n" for x in cmds)          # a command may itself span several lines (banners)
    head = text[:len(text) - len(body)] if text.endswith(body) else None
    if head is None or head.count("\n") > 3 or (head and not head.endswith("\n")):
        return ["__PRINTED_TEXT_DIFFERS__"] + text.split("\n")[-(len(cmds) + 3):]
    return cmds


def run_device(case):
    from ciscoconfparse2.ciscoconfparse2 import Diff
    old, new, syn = case["old"], case["new"], case["syntax"]
    ds, rs = [], []
    with _pid_dir("c10d_") as td:
        fo, fn = os.path.join(td, "old.cfg"), os.path.join(td, "new.cfg")
        with open(fo, "w") as fh:
            fh.write("\n".join(old))
        with open(fn, "w") as fh:
            fh.write("\n".join(new))
        variants = [(list(old), list(new)), (tuple(old), tuple(new)), ("\n".join(old), "\n".join(new)), (fo, fn)]
        if not old:
            variants.append((None, list(new)))
        if not new:
            variants.append((list(old), None))
        for a, b in variants:
            if isinstance(a, str) and a is not fo and len(a.splitlines()) == 1 and os.path.isfile(a):
                continue
            if isinstance(b, str) and b is not fn and len(b.splitlines()) == 1 and os.path.isfile(b):
                continue
            ds.append(_safe(lambda: Diff(a, b, syntax=syn).get_diff()))
            rs.append(_safe(lambda: Diff(a, b, syntax=syn).get_rollback()))
        rs.append(_safe(lambda: Diff(list(new), list(old), syntax=syn).get_diff()))       # mirror
        ds.append(_safe(lambda: Diff(list(new), list(old), syntax=syn).get_rollback()))   # mirror of the mirror
        ds.append(_safe(lambda: _cli("diff", syn, fo, fn)))
        rs.append(_safe(lambda: _cli("rollback", syn, fo, fn)))
        selfd = _safe(lambda: Diff(list(old), list(old), syntax=syn).get_diff())
        # the same lines with a common base indent, as a list and as a string, denote the same config
        io, inn = [" " + l for l in old], [" " + l for l in new]
        ind = []
        if len(io) > 1 and len(inn) > 1:
            ind = [_safe(lambda: (Diff(list(io), list(inn), syntax=syn).get_diff(), Diff(list(io), list(inn), syntax=syn).get_rollback())),
                   _safe(lambda: (Diff("\n".join(io), "\n".join(inn), syntax=syn).get_diff(), Diff("\n".join(io), "\n".join(inn), syntax=syn).get_rollback()))]
        # comment lines are not configuration: adding them changes nothing, for every syntax
        wc = []
        has_banner = any("banner" in l for l in old)       # comment lines inside a banner body are banner text
        for k, l in enumerate(old):
            if k % 3 == 0:
                wc.append("!" if not l[:1].isspace() else " !")
            wc.append(l)
        wc.append("!")
        cmt = [] if has_banner else [_safe(lambda: Diff(list(wc), list(old), syntax=syn).get_diff()), _safe(lambda: Diff(list(wc), list(old), syntax=syn).get_rollback()),
                                     _safe(lambda: Diff(list(old), list(wc), syntax=syn).get_diff())]
    return {"diffs": ds, "rollbacks": rs, "self": selfd, "ind": ind, "cmt": cmt}


def lit_device(c, o):
    # the equalities are decided by the driver (outputs of the real code compared with each other); Coq only records the verdicts
    same = lambda xs: all(x == xs[0] for x in xs)
    ind_ok = (not o.get("ind")) or o["ind"][0] == o["ind"][1]
    cmt_ok = all(x == [] for x in o.get("cmt", []))
    return "(%s, %s, %s)" % (common.blit(same(o["diffs"]) and ind_ok), common.blit(same(o["rollbacks"])), common.blit(o["self"] == [] and cmt_ok))


def describe_device(c, o):
    return {"old": c["old"], "new": c["new"], "syntax": c["syntax"],
            "diff_variants(list,tuple,str,file,[None],mirror-of-mirror,CLI)": o["diffs"],
            "rollback_variants(list,tuple,str,file,[None],diff(new,old),CLI)": o["rollbacks"], "self_diff": o["self"],
            "base_indented(list vs str)": o.get("ind"), "comment_only_change(diff,rollback,reverse diff)": o.get("cmt")}


def nontrivial_device(c, o):
    if not o["diffs"] or not o["diffs"][0] or o["diffs"][0][0].startswith(RAISED):
        return None
    return zlib.crc32(repr((c["old"], c["new"], c["syntax"])).encode())


PRE = ("From Coq Require Import NArith ZArith List. Import ListNotations. "
       "Require Import CCP.Lib.PyStr CCP.Model.Diff CCP.Corr.C10. Open Scope N_scope.")

STREAMS = [
    Stream("neutral", gen_neutral, run_neutral, lit_neutral, preamble=PRE, ctype="case10", agree="agree10", show="model10",
           nontrivial=nontrivial_neutral, describe=describe_neutral, shard=88,
           rule="option-neutral config pairs x input form x syntax; clauses + model, inside Coq"),
    Stream("device", gen_device, run_device, lit_device, preamble=PRE, ctype="case10dev", agree="agree10dev",
           nontrivial=nontrivial_device, describe=describe_device, shard=250,
           rule="option-triggering configs; input forms / CLI / mirror / self-diff equalities on the real code"),
]
