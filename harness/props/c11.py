"""C11 — IPv4/IPv6 objects agree with the standard library on every derived value."""
import ipaddress

from runner import Stream
import common

ID = "C11"
LEVEL = "proof"
PROPS = "Props/C11.vo"
USES_TRANSLATOR = True      # coq/gen/GenIP.v (harness/translate.py) is part of this property's model
MODEL_TARGETS = ["Corr/C11.vo"]
OBLIGATION_FILES = ["Props/C11.v", "gen/GenOK11.v"]
MODEL_TARGETS = ["Corr/C11.vo"]
ANCHORS = [("ciscoconfparse2/ccp_util.py", q) for q in (
    "IPv4Obj.__init__", "IPv6Obj.__init__", "IPv4Obj.as_decimal", "IPv4Obj.as_decimal_network", "IPv4Obj.as_decimal_broadcast",
    "IPv6Obj.as_decimal", "IPv6Obj.as_decimal_network", "IPv6Obj.as_decimal_network_maxint", "IPv4Obj.numhosts", "IPv6Obj.numhosts",
    "IPv4Obj.as_cidr_addr", "IPv4Obj.as_cidr_net", "IPv6Obj.as_cidr_addr", "IPv6Obj.as_cidr_net", "_get_ipv4", "_get_ipv6", "ip_factory")]
RULE = ("values: boundary-biased (address, prefix) pairs (0, max, all-ones octets/groups, ::ffff:a.b.c.d, network/last addresses) x every prefix length, "
        "built through every accepted form (a/len, 'a mask', a/mask, 'a len' for IPv6, surrounding blanks, upper case, exploded/compressed, integer, "
        "copy construction); the integers the object reports (address, network, prefix length, netmask, hostmask, last, numhosts) are compared with the "
        "reference model by vm_compute, and in the same run with ipaddress (three-way) together with the string renderings. "
        "aux: near-valid text = every string at one edit (delete/insert/substitute/duplicate-group) from valid spellings: accept/reject and value must match ipaddress. "
        "non-trivial (values) = host bits non-zero or prefix in {0,W-1,W}; distinct by (family, form, prefix, address class). stream render4: for every prefix length and boundary/random addresses the strings str(ip), as_cidr_addr, as_cidr_net, str(netmask), str(hostmask), str(broadcast) of the IPv4 object are compared inside Coq with the renderer of Model/IPText.v (the one v4_parse_render is about). stream render6: the same for IPv6 (str(ip), as_cidr_addr, as_cidr_net, netmask, hostmask) on all 256 zero/non-zero group patterns, the boundary pool, IPv4-mapped and random values, against Model/IPRender6.v.")
EXHAUSTIVE = {"quick": False, "thorough": False}
TRUSTED = [
    "Coq 8.16.1 kernel incl. vm_compute (no native_compute)",
    "harness/translate.py for numhosts / as_decimal_broadcast / as_decimal_network_maxint and the MAXINT / MAX_PREFIXLEN constants",
    "Python's ipaddress module as the reference for the textual layer and the string renderings (differential test, not a theorem)",
    "correspondence driver harness/props/c11.py",
]
ASSUMPTIONS = ["ipaddress (CPython 3.12) is the reference implementation named by the property"]
TECHNIQUE = "Coq proof of the numeric identities over Z (network = addr AND netmask, masks, last address, numhosts) + vm_compute correspondence of real objects built through every form; Coq proofs about hand models of the IPv4 and IPv6 text parsers (accepted spellings round-trip, accepted text is in range) tied by vm_compute correspondence; remaining textual acceptance/rejection by three-way differential test against ipaddress"
LEVEL_TEXT = ("Numeric layer proved for all (address, prefix) pairs of both families: network = addr land netmask, netmask + hostmask = 2^W-1, last = network + hostmask, "
              "bounds, numhosts, host bits kept; the derived-value methods are re-translated from /repo on every run (gen/GenOK11.v). The object -> (addr, plen) reading of every "
              "accepted textual form, and rejection of near-valid text, is tied three-way (model, implementation, ipaddress) on boundary-biased inputs and the one-edit neighbourhood. "
              "IPv4 text: every spelling a | a/len | a/mask | a<blanks>mask | a<blanks>hostmask with surrounding blanks parses to (a, p) (v4_parse_render, all a < 2^32, p <= 32) and accepted text is always in range (v4_parse_sound); the object's IPv4 string renderings equal that renderer on every case of the render4 stream, so they re-parse to the same (address, length). "
              "IPv6 text: v6_parse (coq/Model/IPText6.v, a transcription of ipaddress's IPv6 parser and IPv6Obj's input handling, tied by the v6text stream) only accepts in-range values (v6_parse_sound), and every spelling "
              "ipaddress accepts denotes the expected value, for every group value, every hextet spelling (minimal lower/upper case, zero padded -- spellings, an exhaustive kernel computation over all 65536 groups), "
              "with or without /len and surrounding blanks: eight groups (v6_parse_full), hi::lo with either side possibly empty (v6_parse_compressed), six groups + dotted quad (v6_parse_embedded_full), "
              "hi::lo:d.d.d.d (v6_parse_embedded_compressed; value_of_embedded: the quad is the low 32 bits); the blank-separated form addr<blanks>len reads exactly as addr/len (v6_parse_blank_form); an accepted address text consists of hexadecimal digits, ':' and '.' only (v6_addr_alphabet: one foreign character anywhere and the address is rejected). Never truncated: whatever v4_parse / v6_parse accept decomposes completely into an address text accepted as a whole followed by nothing, or by a separator and a whole mask / length (v4_parse_shape, dotted_whole, v6_parse_shape). IPv6 renderings: the renderer coq/Model/IPRender6.v (tied to str(ip), as_cidr_addr, as_cidr_net, netmask, hostmask by the render6 stream, all 256 zero-group patterns) re-parses to the same value for every 128-bit value (render6_parses, render6_cidr_parses; renderings are injective). Exactness: the group logic accepts exactly 'eight groups' or 'hi :: lo with at most seven groups' (v6_groups_iff) and an accepted address text is the ':'-join of parts classifying to such fields (v6_addr_complete).")
LEVEL_NOTE = ("PARTIAL: rejection of malformed IPv6 text (beyond 'accepted => in range and over the address alphabet') is decided by correspondence (v6text stream) and differential testing against ipaddress, not by a theorem; that the renderers of the model equal the strings the objects print is tied by the render4/render6 streams (and compared with ipaddress), not proved; "
              "the numeric theorems, the IPv4 textual theorems (v4_parse_render, v4_parse_sound about the hand model coq/Model/IPText.v, tied by the v4text stream) and the IPv6 textual theorems "
              "(v6_parse_sound, v6_parse_full, v6_parse_compressed, v6_parse_embedded_* about coq/Model/IPText6.v, tied by the v6text stream) are unbounded. Trusted: Coq kernel + vm_compute, translator, driver, ipaddress as reference.")


def _addr_pool(W, rng):
    mx = (1 << W) - 1
    s = {0, 1, 2, mx, mx - 1, mx >> 1, (mx >> 1) + 1, 1 << (W - 1)}
    if W == 32:
        s |= {0xFF000000, 0x00FF0000, 0x0000FF00, 0x000000FF, 0xFFFFFF00, 0x0A010203, 0xC0A80101, 0xE0000001, 0x7F000001}
    else:
        s |= {0xFFFF << (16 * i) for i in range(8)} | {(0xFFFF << 32) | 0x0A010203, 0xFFFF00000000 | 0xC0000201, 1 << 112, 0xFE80 << 112,
                                                        (0x20010DB8 << 96) | 1, (0x20010DB8 << 96), ((0x20010DB8 << 96) | ((1 << 64) - 1))}
    for _ in range(6):
        s.add(rng.getrandbits(W))
    return sorted(s)


FORMS4 = ["cidr", "mask", "slashmask", "blanks", "tabmask", "int", "copy", "hostmask"]
FORMS6 = ["cidr", "space", "blanks", "upper", "exploded", "int", "copy"]


def gen_values(rng, tier, escalate):
    cases = []
    big = tier == "thorough" or escalate
    for W in (32, 128):
        pool = _addr_pool(W, rng)
        plens = list(range(W + 1)) if (W == 32 or big) else sorted(set(list(range(0, 129, 8)) + [1, 2, 7, 9, 63, 65, 125, 126, 127, 128]))
        forms = FORMS4 if W == 32 else FORMS6
        k = 0
        for p in plens:
            for a in (pool if big else rng.sample(pool, 9)):
                cases.append({"W": W, "a": a, "p": p, "form": forms[k % len(forms)]})
                k += 1
    return cases


def _build(W, a, p, form):
    from ciscoconfparse2.ccp_util import IPv4Obj, IPv6Obj
    if W == 32:
        ip = str(ipaddress.IPv4Address(a))
        nm = str(ipaddress.IPv4Network((0, p)).netmask)
        hm = str(ipaddress.IPv4Network((0, p)).hostmask)
        if form == "cidr":
            return IPv4Obj("%s/%d" % (ip, p))
        if form == "mask":
            return IPv4Obj("%s %s" % (ip, nm))
        if form == "slashmask":
            return IPv4Obj("%s/%s" % (ip, nm))
        if form == "blanks":
            return IPv4Obj("  %s/%d \t" % (ip, p))
        if form == "tabmask":
            return IPv4Obj("%s\t \t%s" % (ip, nm))
        if form == "hostmask":
            # ipaddress also accepts a host mask; /0 and /32 are ambiguous (0.0.0.0 is read as a netmask)
            if p in (0, 32):
                return IPv4Obj("%s/%d" % (ip, p))
            return IPv4Obj("%s %s" % (ip, hm))
        if form == "int":
            o = IPv4Obj(a)
            o.prefixlen = p
            return o
        if form == "copy":
            return IPv4Obj(IPv4Obj("%s/%d" % (ip, p)))
    else:
        ipo = ipaddress.IPv6Address(a)
        if form == "cidr":
            return IPv6Obj("%s/%d" % (ipo, p))
        if form == "space":
            return IPv6Obj("%s %d" % (ipo, p))
        if form == "blanks":
            return IPv6Obj(" %s/%d  " % (ipo, p))
        if form == "upper":
            return IPv6Obj(("%s/%d" % (ipo, p)).upper())
        if form == "exploded":
            return IPv6Obj("%s/%d" % (ipo.exploded, p))
        if form == "int":
            o = IPv6Obj(a)
            o.prefixlen = p
            return o
        if form == "copy":
            return IPv6Obj(IPv6Obj("%s/%d" % (ipo, p)))
    raise ValueError(form)


def run_values(c):
    W, a, p = c["W"], c["a"], c["p"]
    try:
        o = _build(W, a, p, c["form"])
    except BaseException as e:
        return {"vals": None, "std": "construct raised %s" % type(e).__name__}
    iface = ipaddress.ip_interface((a, p)) if W == 32 else ipaddress.IPv6Interface((a, p))
    net = iface.network
    try:
        last = o.as_decimal_broadcast if W == 32 else o.as_decimal_network_maxint
        vals = [int(o.as_decimal), int(o.as_decimal_network), int(o.prefixlen), int(o.netmask), int(o.hostmask), int(last), int(o.numhosts)]
    except BaseException as e:
        return {"vals": None, "std": "accessor raised %s" % type(e).__name__}
    # three-way: the same quantities from ipaddress, plus the string renderings
    std = []
    exp = {"ip": iface.ip, "network": net, "netmask": net.netmask, "hostmask": net.hostmask, "prefixlen": net.prefixlen,
           "broadcast": net.broadcast_address, "as_cidr_addr": "%s/%d" % (iface.ip, p), "as_cidr_net": str(net),
           "int": int(iface.ip), "inverse_netmask": net.hostmask}
    if W == 128:
        del exp["broadcast"]       # IPv6Obj.broadcast raises by design; the last address is compared as an integer
    try:
        got = {k: (int(o) if k == "int" else getattr(o, k)) for k in exp}
    except BaseException as e:
        return {"vals": None, "std": "string accessor raised %s" % type(e).__name__}
    for k in exp:
        if exp[k] != got[k]:
            std.append("%s: object %s, ipaddress %s" % (k, got[k], exp[k]))
    if [int(iface.ip), int(net.network_address), net.prefixlen, int(net.netmask), int(net.hostmask), int(net.broadcast_address)] != vals[:6]:
        std.append("integer values differ from ipaddress")
    return {"vals": vals, "std": "; ".join(std) or None}


def lit_values(c, o):
    z = common.zlit
    vals = o["vals"] if (o["vals"] is not None and o["std"] is None) else [-1]
    return "(%d, %s, %d, [%s])" % (c["W"], z(c["a"]), c["p"], "; ".join(z(v) for v in vals))


def nt_values(c, o):
    W, a, p = c["W"], c["a"], c["p"]
    host = a & ((1 << (W - p)) - 1)
    if host or p in (0, W - 1, W):
        return (W, c["form"], p, a.bit_length() // 8)
    return None


def describe(c, o):
    f = ipaddress.IPv4Address if c["W"] == 32 else ipaddress.IPv6Address
    return {"object": "%s/%d" % (f(c["a"]), c["p"]), "form": c["form"], "impl [addr,network,plen,netmask,hostmask,last,numhosts]": o["vals"], "vs_ipaddress": o["std"] or "agree"}


# ------------------------------------------------------------------ IPv4 text: model (coq/Model/IPText.v) vs IPv4Obj
def gen_v4text(rng, tier, escalate):
    big = tier == "thorough" or escalate
    out = set()
    octs = ["0", "1", "9", "10", "99", "100", "199", "200", "249", "250", "255", "256", "260", "300", "999", "00", "01", "010", "1000", "", "a", "-1", " 1", "\u0661"]
    def q(): return ".".join(rng.choice(octs[:11]) for _ in range(4))
    masks = [str(ipaddress.IPv4Network((0, p)).netmask) for p in range(33)] + [str(ipaddress.IPv4Network((0, p)).hostmask) for p in range(33)] + \
            ["255.0.255.0", "255.255.255.254", "0.0.0.1", "255.255.255.00", "255.255.255.01", "256.0.0.0", "128.0.0.1"]
    lens = [str(i) for i in range(34)] + ["00", "024", "032", "033", "40", "-1", "", "2 4", "+8", "\u0663"]
    seps = [" ", "  ", "\t", " \t ", "/", " /", "/ ", "\n", "\r", "\x0b", "\xa0", "\u2003", "//", ""]
    n = 4000 if big else 1500
    for _ in range(n):
        a = q()
        k = rng.random()
        if k < 0.15:
            s = a
        elif k < 0.45:
            s = a + "/" + rng.choice(lens)
        elif k < 0.8:
            s = a + rng.choice(seps) + rng.choice(masks)
        else:
            s = ".".join(rng.choice(octs) for _ in range(rng.choice([3, 4, 4, 4, 5]))) + rng.choice(["", "/24", " 255.0.0.0"])
        if rng.random() < 0.3:
            s = rng.choice([" ", "\t", "\n", "  ", "\xa0"]) + s + rng.choice([" ", "", "\n", "\t "])
        out.add(s)
    for b in ["10.1.2.3/24", "10.1.2.3 255.255.255.0", "10.1.2.3/255.255.255.0", "192.168.1.1", " 1.0.0.1/8 ", "10.1.2.3 0.0.0.255"]:
        out.add(b)
        for s in _neighbours(b, "0123456789./ x-", rng, 100000 if big else 250):
            out.add(s)
    return [{"s": s} for s in sorted(out)]


def run_v4text(c):
    from ciscoconfparse2.ccp_util import IPv4Obj
    return _impl(IPv4Obj, c["s"])


def lit_v4text(c, o):
    return "(%s, %s)" % (common.strlit(c["s"]), "None" if o is None else "(Some (%s, %s))" % (common.zlit(o[0]), common.zlit(o[1])))


def nt_v4text(c, o):
    s = c["s"]
    if o is not None:
        return ("ok", s)
    if s.count(".") >= 3 and any(ch.isdigit() for ch in s):
        return ("near-miss", s)
    return None


def _v6_spellings(val):
    groups = ["%x" % ((val >> (112 - 16 * i)) & 0xFFFF) for i in range(8)]
    outs = {":".join(groups), str(ipaddress.IPv6Address(val)), ipaddress.IPv6Address(val).exploded, ":".join(groups).upper()}
    for i in range(8):
        for j in range(i + 1, 9):
            if all(g == "0" for g in groups[i:j]):
                outs.add(":".join(groups[:i]) + "::" + ":".join(groups[j:]))
    tail = str(ipaddress.IPv4Address(val & 0xFFFFFFFF))
    outs.add(":".join(groups[:6]) + ":" + tail)
    if all(g == "0" for g in groups[:5]):
        outs.add("::" + groups[5] + ":" + tail)
    bad = {":".join(groups + ["1"]), ":".join(groups[:7]), ":".join(groups[:7]) + ":12345", ":".join(groups[:7]) + ":g",
           "::" + ":".join(groups) if groups[0] != "0" else "1::2::3",
           ":".join(groups[:3]) + "::" + ":".join(groups[4:6]) + "::" + groups[7], ":" + ":".join(groups[1:]), ":".join(groups[:7]) + ":",
           ":".join(groups[:6]) + ":" + tail + ".1", ":".join(groups[:6]) + ":256.1.1.1", ":".join(groups[:6]) + ":01.1.1.1", ":".join(groups) + "%eth0"}
    return outs, bad


def gen_v6text(rng, tier, escalate):
    big = tier == "thorough" or escalate
    out = set()
    for t in range(40 if not big else 200):
        val = rng.choice([0, 1, (1 << 128) - 1, 0xFFFF00000000 | rng.getrandbits(32), rng.getrandbits(128), rng.getrandbits(64) << 64, rng.getrandbits(16) << 112,
                          (0x20010DB8 << 96) | rng.getrandbits(16), rng.getrandbits(128) & ~(0xFFFFFFFF << 48), rng.getrandbits(128) & ~(0xFFFF << 16)])
        good, bad = _v6_spellings(val)
        for a in sorted(good) + sorted(bad):
            for suffix in ("", "/%d" % rng.randint(0, 128), " %d" % rng.randint(0, 128), "/0", "/128", "/129", "/-1", "/6 4", "/64x", "/", "/ 64", "/064", "  12"):
                if suffix and rng.random() < 0.65:
                    continue
                out.add(rng.choice(["", "", " ", "\t"]) + a + suffix + rng.choice(["", "", " "]))
    for b in ["2001:db8::1/64", "::1", "::", "fe80::/10", "1:2:3:4:5:6:7:8/128", "::ffff:10.1.2.3/96", "2001:db8::1 64", "1:2:3:4:5:6:7::", "::2:3:4:5:6:7:8"]:
        for s in _neighbours(b, "0123456789afAF:/. xg%", rng, 100000 if big else 120):
            out.add(s)
    return [{"s": s} for s in sorted(out)]


def run_v6text(c):
    from ciscoconfparse2.ccp_util import IPv6Obj
    return _impl(IPv6Obj, c["s"])


PRE = "From Coq Require Import ZArith List NArith. Import ListNotations. Require Import CCP.Corr.C11. Open Scope Z_scope."
# ------------------------------------------------------------------ IPv4 string renderings against the Coq renderer
def gen_render4(rng, tier, escalate):
    big = tier == "thorough" or escalate
    cases = []
    pool = sorted(_addr_pool(32, rng))
    for p in range(33):
        for a in (pool if big else rng.sample(pool, 8)):
            cases.append({"a": a, "p": p})
        for _ in range(12 if big else 3):
            cases.append({"a": rng.getrandbits(32), "p": p})
    return cases


def run_render4(c):
    from ciscoconfparse2.ccp_util import IPv4Obj
    try:
        o = IPv4Obj(c["a"])
        o.prefixlen = c["p"]
        return [str(o.ip), str(o.as_cidr_addr), str(o.as_cidr_net), str(o.netmask), str(o.hostmask), str(o.broadcast)]
    except BaseException as e:
        return ["raised " + type(e).__name__]


def lit_render4(c, o):
    return "(%s, %d, %s)" % (common.zlit(c["a"]), c["p"], common.listlit([common.strlit(x) for x in o]))


def gen_render6(rng, tier, escalate):
    big = tier == "thorough" or escalate
    cases = []
    pool = sorted(_addr_pool(128, rng))
    # zero runs of every position and length (the "::" placement), ties between equally long runs, single zero groups
    shapes = []
    for mask in range(256):
        shapes.append(sum((rng.choice([1, 0xffff, 0x1234, 0xa]) if mask >> (7 - i) & 1 else 0) << (16 * (7 - i)) for i in range(8)))
    for a in shapes + pool + [rng.getrandbits(128) for _ in range(400 if big else 100)] + [0xFFFF00000000 | rng.getrandbits(32) for _ in range(20)]:
        cases.append({"a": a, "p": rng.choice([0, 1, 64, 127, 128, rng.randint(0, 128)])})
    return cases


def run_render6(c):
    from ciscoconfparse2.ccp_util import IPv6Obj
    try:
        o = IPv6Obj(c["a"])
        o.prefixlen = c["p"]
        return [str(o.ip), str(o.as_cidr_addr), str(o.as_cidr_net), str(o.netmask), str(o.hostmask)]
    except BaseException as e:
        return ["raised " + type(e).__name__]


STREAMS = [Stream("v4text", gen_v4text, run_v4text, lit_v4text, PRE, "list N * option (Z * Z)", "agree11t", show="model11t", nontrivial=nt_v4text,
                  describe=lambda c, o: {"text": c["s"], "impl (addr, plen)": o}),
           Stream("v6text", gen_v6text, run_v6text, lit_v4text, PRE, "list N * option (Z * Z)", "agree11t6", show="model11t6",
                  nontrivial=lambda c, o: (("ok", c["s"]) if o is not None else (("near-miss", c["s"]) if c["s"].count(":") >= 2 else None)),
                  describe=lambda c, o: {"text": c["s"], "impl (addr, plen)": o}),
           Stream("values", gen_values, run_values, lit_values,
                  "From Coq Require Import ZArith List. Import ListNotations. Require Import CCP.Corr.C11. Open Scope Z_scope.",
                  "Z * Z * Z * list Z", "agree11", show="model11", nontrivial=nt_values, describe=describe),
           Stream("render4", gen_render4, run_render4, lit_render4,
                  "From Coq Require Import ZArith List NArith. Import ListNotations. Require Import CCP.Corr.C11. Open Scope Z_scope.",
                  "Z * Z * list (list N)", "agree11r", show="model11r",
                  nontrivial=lambda c, o: (c["p"], c["a"] >> 24 in (0, 255), c["a"] & 255 in (0, 255)) if c["p"] in (0, 1, 8, 24, 30, 31, 32) or (c["a"] & 255) in (0, 255) else None,
                  describe=lambda c, o: {"address": c["a"], "prefixlen": c["p"], "impl [ip, as_cidr_addr, as_cidr_net, netmask, hostmask, broadcast]": o}),
           Stream("render6", gen_render6, run_render6, lit_render4,
                  "From Coq Require Import ZArith List NArith. Import ListNotations. Require Import CCP.Corr.C11. Open Scope Z_scope.",
                  "Z * Z * list (list N)", "agree11r6", show="model11r6",
                  nontrivial=lambda c, o: ("::" in o[0], o[0].startswith("::"), o[0].endswith("::"), o[0].count(":")) if len(o) == 5 else None,
                  describe=lambda c, o: {"address": c["a"], "prefixlen": c["p"], "impl [ip, as_cidr_addr, as_cidr_net, netmask, hostmask]": o})]


# ------------------------------------------------------------------ textual layer: three-way differential test
def _std4(s):
    """What ipaddress says about an IPv4 string in the forms the property lists; None = invalid."""
    t = s.strip()
    import re
    parts = re.split(r"\s+", t)
    if len(parts) == 2 and "/" not in t:
        t = parts[0] + "/" + parts[1]
        if "." not in parts[1]:
            return None      # 'a len' is not an IPv4 form of the library
    elif len(parts) != 1:
        return None
    try:
        i = ipaddress.IPv4Interface(t)
    except ValueError:
        return None
    return (int(i.ip), i.network.prefixlen)


def _std6(s):
    import re
    t = s.strip()
    parts = re.split(r"\s+", t)
    if len(parts) == 2:
        t = parts[0] + "/" + parts[1]
    elif len(parts) != 1:
        return None
    if "%" in t:
        return None
    try:
        i = ipaddress.IPv6Interface(t)
    except ValueError:
        return None
    return (int(i.ip), i.network.prefixlen)


def _impl(cls, s):
    try:
        o = cls(s)
        return (int(o.as_decimal), int(o.prefixlen))
    except BaseException:
        return None


def _neighbours(s, alphabet, rng, limit):
    out = set()
    for i in range(len(s) + 1):
        if i < len(s):
            out.add(s[:i] + s[i + 1:])
            for ch in alphabet:
                out.add(s[:i] + ch + s[i + 1:])
        for ch in alphabet:
            out.add(s[:i] + ch + s[i:])
    out.discard(s)
    out = sorted(out)
    if len(out) > limit:
        out = rng.sample(out, limit)
    return out


def aux(rng, tier, escalate):
    common.setup_impl()
    from ciscoconfparse2.ccp_util import IPv4Obj, IPv6Obj
    big = tier == "thorough" or escalate
    lim = 100000 if big else 450
    base4 = ["10.1.2.3/24", "10.1.2.3 255.255.255.0", "10.1.2.3/255.255.255.0", "192.168.1.1", "0.0.0.0/0", "255.255.255.255/32", " 1.0.0.1/8 ",
             "10.1.2.3 0.0.0.255", "1.2.3.4/01"]
    base6 = ["2001:db8::1/64", "::1", "::", "fe80::/10", "1:2:3:4:5:6:7:8/128", "::ffff:10.1.2.3/96", "2001:db8::1 64", "fe80:a:b:c:d:e::/48", "::2:3:4:5:6:7:8",
             "1:2:3:4:5:6:7::", "FE80::DEAD:BEEF/7"]
    failures, n = [], 0
    for cls, std, bases, alpha in ((IPv4Obj, _std4, base4, "0123456789./ x-"), (IPv6Obj, _std6, base6, "0123456789afAF:/. xg-")):
        seen = set()
        for b in bases:
            for s in [b] + _neighbours(b, alpha, rng, lim):
                if s in seen:
                    continue
                seen.add(s)
                n += 1
                got, exp = _impl(cls, s), std(s)
                if got != exp:
                    failures.append({"case": {"class": cls.__name__, "text": s}, "observed": got, "expected": exp,
                                     "detail": "text acceptance/value differs from ipaddress: %s(%r) -> %s, ipaddress -> %s" % (cls.__name__, s, got, exp)})
    # generated IPv6 spellings: every '::' position, exploded / compressed / upper case, embedded IPv4 tail,
    # separators, boundary and out-of-range prefix lengths, and malformed variants
    def v6_spellings(val):
        groups = ["%x" % ((val >> (112 - 16 * i)) & 0xFFFF) for i in range(8)]
        outs = {":".join(groups), str(ipaddress.IPv6Address(val)), ipaddress.IPv6Address(val).exploded, ":".join(groups).upper()}
        for i in range(8):
            for j in range(i + 1, 9):
                if all(g == "0" for g in groups[i:j]):
                    outs.add(":".join(groups[:i]) + "::" + ":".join(groups[j:]))
        tail = str(ipaddress.IPv4Address(val & 0xFFFFFFFF))
        outs.add(":".join(groups[:6]) + ":" + tail)
        if all(g == "0" for g in groups[:5]):
            outs.add("::" + groups[5] + ":" + tail)
        bad = {":".join(groups + ["1"]), ":".join(groups[:7]), ":".join(groups[:7]) + ":12345", ":".join(groups[:7]) + ":g", "::" + ":".join(groups) if groups[0] != "0" else "1::2::3",
               ":".join(groups[:3]) + "::" + ":".join(groups[4:6]) + "::" + groups[7], ":" + ":".join(groups[1:]), ":".join(groups[:7]) + ":"}
        return outs, bad
    for t in range(60 if not big else 400):
        val = rng.choice([0, 1, (1 << 128) - 1, 0xFFFF00000000 | rng.getrandbits(32), rng.getrandbits(128), rng.getrandbits(64) << 64, rng.getrandbits(16) << 112,
                          (0x20010DB8 << 96) | rng.getrandbits(16), rng.getrandbits(128) & ~(0xFFFFFFFF << 48)])
        good, bad = v6_spellings(val)
        for a in sorted(good) + sorted(bad):
            for suffix in ("", "/%d" % rng.randint(0, 128), " %d" % rng.randint(0, 128), "/0", "/128", "/129", "/-1", "/6 4", "/64x", "/", "/ 64"):
                if suffix and rng.random() < 0.6:
                    continue
                text = rng.choice(["", "", " ", "\t"]) + a + suffix + rng.choice(["", "", " "])
                n += 1
                got, exp = _impl(IPv6Obj, text), _std6(text)
                if got != exp:
                    failures.append({"case": {"class": "IPv6Obj", "text": text}, "observed": got, "expected": exp,
                                     "detail": "text acceptance/value differs from ipaddress: IPv6Obj(%r) -> %s, ipaddress -> %s" % (text, got, exp)})
    return {"evaluations": n, "failures": failures[:50], "n_failures": len(failures),
            "note": "one-edit neighbourhood of valid spellings, accept/reject and (address, prefix) compared with ipaddress (test, not proof)"}
