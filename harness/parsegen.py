"""Shared generator / oracle helpers for the parser properties (C01, C03, C06, C07)."""
import re

import common

BAN_KW = ["login", "motd", "incoming", "exec", "telnet", "lcd"]
# the SPECIFIED meaning of the two banner regexes (DESIGN.md C01); the model takes their answers as an oracle
BANNER_RE = re.compile("|".join([r"^(set\s+)*banner\s+%s" % k for k in BAN_KW] + ["aaa authentication fail-message"]))
DELIM_RE = re.compile(r"^(?:(?P<btype>(?:set\s+)*banner\s\w+\s+)(?P<bchar>\S))")


def pban(text):
    """None | ("nodelim",) | ("delim", ch)"""
    if not BANNER_RE.search(text):
        return None
    m = DELIM_RE.search(text)
    if m is None:
        return ("nodelim",)
    return ("delim", m.group("bchar"))


def pban_lit(text):
    b = pban(text)
    if b is None:
        return "None"
    if b[0] == "nodelim":
        return "(Some None)"
    return "(Some (Some %d%%N))" % ord(b[1])


def lines_lit(lines):
    return "[" + "; ".join("(%s, %s)" % (common.strlit(l), pban_lit(l)) for l in lines) + "]"


POOL = ["a", " b", "  c", "", "  ", "!x", " !y", "banner motd ^", "banner login #", "banner exec ^C", "banner motd ^ hi ^", "^", "#", "^C",
        "text ^ more", "macro name m1", "@", " @", "set banner motd ^", "aaa authentication fail-message ^", "banner foo ^", " banner motd ^",
        "banner  motd ^", "banner motd", "@ ", "x{y}", " a+b (c", "déjà", "\tt", " n", "macro name", "macro name  z", "banner lcd %", "%",
        " ", "   d", "interface Gi0/1", " ip address 1.1.1.1 255.0.0.0",
        # doubled braces are ordinary text too (templates, Tcl bodies, regex repetitions written twice)
        "a{{b}}", " x }}", "{{", "description {{ site }}-{1}"]


# lines that the typed-model factories (models_*.py is_object_for) claim, decorated with braces / odd characters:
# the factory may only choose the class of a line, never rewrite it
FACTORY_POOL = ["hostname r{1}", "hostname", "interface Gi0/1{a}", "interface", " ip address 1.1.1.1 255.0.0.0", "aaa authentication login {x} local",
                "aaa authorization exec default group {t} local", "aaa accounting commands 15 default start-stop group t{", "ip route 10.0.0.0 255.0.0.0 1.1.1.1 name r{1}",
                "ipv6 route ::/0 2001:db8::1", "ip route vrf V{ 0.0.0.0 0.0.0.0 Null0", "no cdp run", "logging event link-status global", "line vty 0 4", "line con 0 }",
                "access-list X remark a{1}b", "access-list 10 permit any", "access-list A extended permit ip any any", "access-list A extended deny tcp any host 1.1.1.1 eq 80 log {",
                "object-group network G{1}", " network-object host 1.1.1.1", " network-object 10.0.0.0 255.0.0.0", "object-group service S{1} tcp", " port-object eq 80",
                "object network N{1}", " host 1.1.1.1", "object service V}", " service tcp destination eq 80", "name 1.1.1.1 n{1}", "name 1.1.1.2 n2 description {d}",
                "mtu inside 1500", "mtu {", "vpc domain 1{", "interface Ethernet1/1", " vrf member {v}", "interface port-channel1", " description {uplink} to core",
                "router bgp 1", " neighbor 1.1.1.1 remote-as 2 {", "ip as-path access-list 1 permit _6500{1,3}_", "event manager applet E", " action 1.0 cli command \"x {y}\""]


def factory_lines(rng, maxlen=8):
    return [rng.choice(FACTORY_POOL if rng.random() < 0.8 else POOL) for _ in range(rng.randint(1, maxlen))]


def random_lines(rng, maxlen=9, pool=POOL):
    return [rng.choice(pool) for _ in range(rng.randint(1, maxlen))]


def structured(rng):
    """a config with well-formed banners/macros whose bodies contain blank, indented and comment lines"""
    out = []
    for _ in range(rng.randint(1, 4)):
        k = rng.random()
        if k < 0.35:
            d = rng.choice("^#%~")
            out.append(rng.choice(["banner motd %s", "banner login %s", "set banner exec %s", " banner incoming %s"]) % d)
            for _ in range(rng.randint(0, 4)):
                out.append(rng.choice(["", "  ", "hello", " world", "   deep", "!c", "  !c2"]))
            if rng.random() < 0.8:
                out.append(rng.choice([d, " " + d, "bye" + d]))
        elif k < 0.5:
            out.append("macro name m%d" % rng.randint(0, 3))
            for _ in range(rng.randint(0, 3)):
                out.append(rng.choice(["", " ", "switchport", " x y", "!c"]))
            if rng.random() < 0.8:
                out.append(rng.choice(["@", "@  "]))
        else:
            out.append(rng.choice(["interface Gi0/%d" % rng.randint(0, 3), "router bgp 1", "hostname x", "", "!", "line vty 0 4"]))
            for _ in range(rng.randint(0, 3)):
                out.append(rng.choice([" a", "  b", " !c", "", "   c", " d e"]))
    return out
