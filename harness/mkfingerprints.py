"""Record the AST fingerprints of every anchored function at the current /repo HEAD (fingerprints.json).
A later difference does not alarm; it only escalates the exploration effort of that property's check."""
import importlib, json, os, sys
HERE = os.path.dirname(os.path.abspath(__file__)); ROOT = os.path.dirname(HERE)
sys.path.insert(0, HERE)
import common
out = {}
for l in open(os.path.join(ROOT, "properties.jsonl")):
    pid = json.loads(l)["id"]
    try:
        m = importlib.import_module("props." + pid.lower())
    except ModuleNotFoundError:
        continue
    out[pid] = common.fingerprints(m.ANCHORS)
    bad = [k for k, v in out[pid].items() if v in ("missing", "unparsable")]
    if bad:
        print(pid, "anchors not found:", bad)
json.dump(out, open(os.path.join(ROOT, "fingerprints.json"), "w"), indent=1, sort_keys=True)
print({k: len(v) for k, v in out.items()})
