"""Shared history generator / executor for C06 and C07 (editing sessions on the real code)."""
import itertools
import re

import common
import parsegen

SAFE_RX = ["a", "^b", "Eth1", "Eth1$", r"\s+x", "c|d", "^$", "ip", "(b)", "nomatchZZ"]
PAYLOADS = ["new", " new", "  deep", " Eth1", "a", "", "  ", "!c", " a+b (x", " n{1}", "banner motd ^", "^", " ip address 1.1.1.1 255.0.0.0"]
SEARCH_PROBES = 13


def gen_history(rng, n_lines, n_ops, banner=False, ibl=False):
    if banner:
        lines = parsegen.structured(rng)
    else:
        pool = ["a", " b", "  c", " Eth1", " Eth10", "a", "d", " b", "   cc", "!x", " !y", "", "  ", " a+b (x", "Eth1", " n{1}", "interface Gi0/1", " ip address 1.1.1.1 255.0.0.0"]
        lines = [rng.choice(pool) for _ in range(rng.randint(1, n_lines))]
    ops = []
    for _ in range(rng.randint(1, n_ops)):
        kind = rng.choice(["insert", "append", "pop", "lins_before", "lins_after", "oins_before", "oins_after", "delete", "replace_text", "re_sub", "atf", "atf_auto"])
        pay = rng.choice([p for p in PAYLOADS if not (ibl and p.strip() == "")] if ibl else PAYLOADS)
        if kind in ("atf", "atf_auto") and (parsegen.pban(pay.lstrip()) or "^" in pay or pay.startswith("macro name")):
            # a payload that opens or closes a banner/macro body changes which later lines belong to that body:
            # append_to_family's "no parent changes" clause is about ordinary command payloads
            pay = " new"
        ops.append({"k": kind, "i": rng.randint(-3, 40), "s": pay, "rx": rng.choice(SAFE_RX), "b": rng.choice(["a", "Eth1", "b", " ", "{", "x"]), "a2": rng.choice(["Z", "", "{y}", "Eth2"])})
    return lines, ops


def pl(text):
    return "(PL %s %s)" % (common.strlit(text), parsegen.pban_lit(text))


def _parents(p):
    return [None if o.parent is o else o.parent.linenum for o in p.objs]


def _probe_search(p, olds=None):
    """0 all answered / 1 all refused (NotImplementedError) / 2 mixed.
    Object-level entry points are probed on a line object that existed before the edit and is still a member
    of the list (a brand-new uncommitted line has no tree to be stale about)."""
    objs = list(p.objs)
    o = None
    for cand in (objs if olds is None else olds):
        if any(cand is x for x in objs):
            o = cand
            break
    calls = [lambda: p.find_objects("."), lambda: p.find_parent_objects(["a", "b"]), lambda: p.find_child_objects(["a", "b"]),
             lambda: p.find_parent_objects_wo_child("a", "b"), lambda: p.find_object_branches(["a"]),
             lambda: p.re_match_iter_typed("(zz)", default="")]
    if o is not None:
        # (re_sub is guarded too, but it assigns the text even when nothing matches, which re-applies the
        #  setter's brace escaping: it is exercised as an edit, not as a probe)
        calls += [lambda: o.all_parents, lambda: o.re_match("(zz)"), lambda: o.re_search("zz"),
                  lambda: o.re_search_children("zz"), lambda: o.re_match_typed("(zz)"), lambda: o.re_match_iter_typed("(zz)"),
                  lambda: o.re_list_iter_typed("(zz)")]
    refused = answered = 0
    for f in calls:
        try:
            f()
            answered += 1
        except NotImplementedError:
            refused += 1
        except BaseException:
            answered += 1          # raised for another reason: it did not refuse
    if refused == 0:
        return 0
    if answered == 0:
        return 1
    return 2


def execute(c, tree):
    """Run the history on the real implementation.  Returns {"steps": [...]} where each step is
    {"op": gallina literal, "after": None | [texts, parents, search], "py": description}."""
    from ciscoconfparse2 import CiscoConfParse
    kw = dict(syntax=c["syntax"], ignore_blank_lines=c["ibl"], comment_delimiters=list(c["delims"]), auto_commit=c["ac"])
    try:
        p = CiscoConfParse(list(c["lines"]), **kw)
    except BaseException as e:
        return {"fatal": "constructor raised %s" % type(e).__name__, "steps": []}
    steps = []
    notes = []

    olds = [list(p.objs)]          # the line objects of the last committed state
    objs0 = list(p.objs)
    kids0 = [bool(o.children) for o in objs0]
    atf_i = [0]

    def observe(committed):
        texts = p.get_text()
        ps = _parents(p) if committed else []
        if committed:
            olds[0] = list(p.objs)
        sr = _probe_search(p, None if committed else olds[0]) if tree else 3
        if tree and committed:
            # the property's own observation: the tree equals that of a fresh parse of the current text
            try:
                q = CiscoConfParse(list(texts), **kw)
                fresh = (q.get_text(), _parents(q), [[x.linenum for x in o.children] for o in q.objs], [o.linenum for o in q.objs])
                mine = (texts, _parents(p), [[x.linenum for x in o.children] for o in p.objs], [o.linenum for o in p.objs])
                if fresh != mine:
                    notes.append("tree differs from a fresh parse of get_text(): %s vs %s" % (mine, fresh))
            except BaseException as e:
                notes.append("fresh parse of get_text() raised %s" % type(e).__name__)
        return [texts, ps, sr]

    for op in c["ops"]:
        n = len(p.objs)
        before = p.get_text()
        k, s, kind = op["i"], op["s"], op["k"]
        lit = None
        raised = None
        try:
            if kind == "insert":
                lit = "(OInsert (%d)%%Z %s)" % (k, pl(s))
                p.objs.insert(k, s)
            elif kind == "append":
                lit = "(OAppend %s)" % pl(s)
                p.objs.append(s)
            elif kind == "pop":
                kk = k % 7 - 3
                lit = "(OPop (%d)%%Z)" % kk
                p.objs.pop(kk)
            elif kind in ("lins_before", "lins_after"):
                m = [bool(re.search(op["rx"], t)) for t in before]
                lit = "(OListIns %s [%s] %s)" % (common.blit(kind == "lins_after"), "; ".join(common.blit(x) for x in m), pl(s))
                (p.objs.insert_after if kind == "lins_after" else p.objs.insert_before)(op["rx"], s)
            elif kind in ("oins_before", "oins_after"):
                if n == 0:
                    continue
                i = k % n
                lit = "(OObjIns %s %d %s)" % (common.blit(kind == "oins_after"), i, pl(s))
                (p.objs[i].insert_after if kind == "oins_after" else p.objs[i].insert_before)(s)
            elif kind == "delete":
                if n == 0:
                    continue
                i = k % n
                lit = "(ODelete %d)" % i
                p.objs[i].delete()
            elif kind in ("replace_text", "re_sub"):
                if n == 0:
                    continue
                i = k % n
                old = before[i]
                if kind == "replace_text":
                    new = old.replace(op["b"], op["a2"])
                    lit = "(OSetText %d %s)" % (i, pl(new))
                    p.objs[i].replace_text(op["b"], op["a2"])
                else:
                    rx = re.escape(op["b"])
                    new = re.sub(rx, op["a2"].replace("\\", ""), old)
                    # a substitution that changes nothing leaves the line (and its braces) untouched
                    lit = "(OSetText %d %s)" % (i, pl(new)) if new != old else "NOOP"
                    p.objs[i].re_sub(rx, op["a2"].replace("\\", ""))
            elif kind in ("atf", "atf_auto"):
                if n == 0:
                    continue
                i = k % n
                if op.get("same"):
                    # the same line OBJECT as at the start of the history (its index may have moved)
                    tgt = objs0[k % len(objs0)]
                    if op.get("need_children") and not kids0[k % len(objs0)]:
                        continue
                    i = next((j for j, x in enumerate(p.objs) if x is tgt), None)
                    if i is None:
                        continue
                    atf_i[0] = i
                lit = "ATF"
                if kind == "atf_auto":
                    p.objs[i].append_to_family(s.lstrip() or "x", auto_indent=True)
                else:
                    p.objs[i].append_to_family(s)
        except BaseException as e:
            raised = type(e).__name__
        after = p.get_text()
        if raised is not None:
            if after != before:
                steps.append({"op": "(OPop 0%Z)", "after": ["__raised_but_text_changed__"], "py": op, "broken": "%s raised %s but the text changed" % (kind, raised)})
                break
            if kind == "pop" and raised == "IndexError":
                steps.append({"op": lit, "after": None, "py": op})
            # any other raise (NotImplementedError of append_to_family, InvalidParameters for blank+ibl ...) is a refusal
            # that leaves the text untouched: nothing to compare
            continue
        if lit == "NOOP":
            if after != before:
                steps.append({"op": "(OPop 0%Z)", "after": ["__noop_changed_text__"], "py": op, "broken": "re_sub without a match changed the text"})
                break
            continue
        if lit == "ATF":
            # locate the single inserted line
            i = atf_i[0] if op.get("same") else k % n
            if len(after) != len(before) + 1 and c["ac"] and c["ibl"]:
                break               # the commit's blank-line filter also acted: the single inserted line cannot be located; end the history here
            idx = None
            for j in range(len(after)):
                if after[:j] + after[j + 1:] == before:
                    idx = j
                    break
            if idx is None:
                steps.append({"op": "(OPop 0%Z)", "after": ["__atf_not_one_insertion__"], "py": op, "broken": "append_to_family did not add exactly one line"})
                break
            # several positions may be indistinguishable when the inserted text equals its neighbours: take the last
            cands = [j for j in range(len(after)) if after[:j] + after[j + 1:] == before]
            idx = cands[-1]
            lit = "(OAtf %d %d %s)" % (i, idx, pl(after[idx]))
        steps.append({"op": lit, "after": observe(committed=c["ac"]), "py": op})
        if not c["ac"] and not c.get("nocommit"):
            try:
                p.commit()
            except BaseException as e:
                steps.append({"op": "OCommit", "after": None, "py": "commit raised %s" % type(e).__name__})
                break
            steps.append({"op": "OCommit", "after": observe(committed=True), "py": "commit"})
    return {"steps": steps, "notes": notes, "final": p.get_text()}


def hist_lit(c, o, atf_as_insert=False):
    head = "(%s, %s, %s)" % (common.blit(c["syntax"] == "ios"), common.blit(c["ibl"]), common.blit(c["ac"]))
    d = "[" + "; ".join(str(ord(x)) for x in c["delims"]) + "]%N"
    ls = "[" + "; ".join(pl(t) for t in c["lines"]) + "]"
    if o.get("fatal") or o.get("notes"):
        return "(%s, %s, %s, [(OCommit, None)])" % (head, d, ls)          # forces a disagreement
    st = []
    for s in o["steps"]:
        if s["after"] is None:
            ob = "None"
        elif s.get("broken"):
            ob = "(Some ([[0%N]], [], 3))"
        else:
            t, ps, sr = s["after"]
            ob = "(Some ([%s], [%s], %d))" % ("; ".join(common.strlit(x) for x in t),
                                              "; ".join("None" if x is None else "Some %d" % x for x in ps), sr)
        oplit = s["op"]
        if atf_as_insert and oplit.startswith("(OAtf "):
            # C07 is not about append_to_family's placement contract (that is C06): treat it as the insertion it performed
            parts = oplit.split(" ", 3)
            k = int(parts[2])
            oplit = "(OObjIns true %d %s" % (k - 1, parts[3])
        st.append("(%s, %s)" % (oplit, ob))
    return "(%s, %s, %s, [%s])" % (head, d, ls, "; ".join(st))
