"""Build coq/Props/Cnn.v from the lemma statements of a Proofs file: the Props file restates each
selected lemma in full as `Theorem Cnn_<name> : <statement>. Proof. exact <name>. Qed.` + Print Assumptions.
usage: mkprops.py C13 Proofs/C13Proofs.v 'v4_|v6_|hash_' "header comment" "Require line"
"""
import re, sys
pid, srcs, pats, header, req = sys.argv[1:6]
out = ["(* %s *)" % header, req, ""]
for src, pat in zip(srcs.split(","), pats.split(",,")):
  s = open("/verif/coq/" + src).read()
  for m in re.finditer(r"^(?:Lemma|Theorem|Corollary)\s+([\w']+)((?:\s+(?:\([^)]*\)|[\w']+))*)\s*:\s*(.*?)\.\s*\nProof", s, flags=re.S | re.M):
    name, binders, stmt = m.group(1), m.group(2).strip(), " ".join(m.group(3).split())
    if not re.match(pat, name):
        continue
    full = ("forall %s, %s" % (binders, stmt)) if binders else stmt
    if 1:
      out.append("Theorem %s_%s :\n  %s.\nProof. exact %s. Qed.\nPrint Assumptions %s_%s.\n" % (pid, name, full, name, pid, name))
open("/verif/coq/Props/%s.v" % pid, "w").write("\n".join(out))
print(len(out) - 3, "theorems")
