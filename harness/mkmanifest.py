"""Writes /verif/MANIFEST.json from the property modules that exist."""
import importlib, json, os, sys
HERE = os.path.dirname(os.path.abspath(__file__)); ROOT = os.path.dirname(HERE)
sys.path.insert(0, HERE)
props = [json.loads(l) for l in open(os.path.join(ROOT, "properties.jsonl"))]
checks, na = [], []
for p in props:
    pid = p["id"]
    try:
        m = importlib.import_module("props." + pid.lower())
    except ModuleNotFoundError:
        na.append({"property_id": pid, "reason": "check not built yet in this session (work in progress; see DESIGN.md section 5 for the planned theorem and tie)"})
        continue
    checks.append({
        "property_id": pid,
        "quick_cmd": "./check %s --tier quick" % pid,
        "thorough_cmd": "./check %s --tier thorough" % pid,
        "evidence_file": "/verif/evidence/%s.json" % pid,
        "replay_cmd_template": "./check %s --replay {path}" % pid,
        "engine": "coq-proof+correspondence",
        "level_claimed": {"category": m.LEVEL, "text": m.LEVEL_TEXT, "design_ref": "DESIGN.md section 5, %s" % pid},
        "level_note": m.LEVEL_NOTE,
        "technique": m.TECHNIQUE,
    })
man = {
    "version": 1,
    "setup_cmd": "./setup.sh",
    "hooks": {"guard": "CISCOCONFPARSE2_VERIF", "enable": "no hooks are needed: the checks import /repo's working tree directly (PYTHONPATH=/repo)",
              "baseline_off_cmd": "cd /repo && /venv/bin/python -m pytest -ra -q -p no:cacheprovider --timeout=900 --continue-on-collection-errors",
              "source_commits": [], "add_only": True},
    "engines": [{"name": "coq-proof+correspondence", "path": "/verif/check", "serves_properties": [c["property_id"] for c in checks],
                 "kind_free_text": "Coq 8.16.1 theorems about an executable Gallina model; model tied to /repo on every run by a Python-ast->Gallina translator (IPv4Obj/IPv6Obj methods, tables) and by vm_compute correspondence shards against the real implementation"}],
    "checks": checks,
    "not_applicable": na,
    "notes": "Single entry point ./check <ID> --tier quick|thorough. known_findings.json lists recorded findings and fix: commits. See DESIGN.md.",
}
json.dump(man, open(os.path.join(ROOT, "MANIFEST.json"), "w"), indent=1)
print("checks:", [c["property_id"] for c in checks], "n/a:", len(na))
