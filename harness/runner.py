"""./check <ID> --tier quick|thorough [--replay file]  — generic driver (DESIGN.md 2.2)."""
import argparse
import importlib
import json
import multiprocessing as mp
import concurrent.futures as cf
import concurrent.futures.process
import os
import random
import shutil
import sys
import tempfile
import time
import traceback

HERE = os.path.dirname(os.path.abspath(__file__))
sys.path.insert(0, HERE)
import common  # noqa: E402
import translate  # noqa: E402


class Stream:
    """One correspondence stream: generated cases, the implementation run on each, and the
    Gallina predicate `agree` that compares the model with the implementation's output."""

    def __init__(self, name, gen, run, lit, preamble, ctype, agree, show=None, nontrivial=None,
                 known=None, shard=250, describe=None, rule=""):
        self.name, self.gen, self.run, self.lit = name, gen, run, lit
        self.preamble, self.ctype, self.agree, self.show = preamble, ctype, agree, show
        self.nontrivial, self.known, self.shard = nontrivial, known, shard
        self.describe = describe or (lambda c, o: {"input": c, "observed": o})
        self.rule = rule


def _run_one(args):
    modname, sname, case = args
    mod = importlib.import_module(modname)
    st = [s for s in mod.STREAMS if s.name == sname][0]
    try:
        return st.run(case)
    except BaseException as e:  # the driver itself must never kill the pool
        return {"__driver_error__": "%s: %s" % (type(e).__name__, e)}


def main():
    ap = argparse.ArgumentParser()
    ap.add_argument("pid")
    ap.add_argument("--tier", default=os.environ.get("VERIF_TIER", "quick"), choices=["quick", "thorough"])
    ap.add_argument("--replay")
    a = ap.parse_args()
    pid = a.pid.upper()
    seed = int(os.environ.get("VERIF_SEED", "20260930"))
    t0 = time.time()
    modname = "props." + pid.lower()
    mod = importlib.import_module(modname)
    common.setup_impl()
    work = tempfile.mkdtemp(prefix="ccpverif_%s_" % pid)
    problems = []      # obligations / ties that no longer check
    violations = []    # concrete failing inputs
    known_lines = []
    info = {}
    try:
        # ---- 1. regenerate the translated part of the model from /repo
        # (steps 1-3 run under one lock: concurrent checks against different source trees must not interleave
        #  regeneration and compilation of coq/gen)
        import fcntl
        outer = open(os.path.join(common.COQ, ".lock_outer"), "w")
        fcntl.flock(outer, fcntl.LOCK_EX)
        gen_status = None
        try:
            gen_status = translate.regenerate()
        except translate.Unsupported as u:
            # the address-object translator serves C11-C13 only; a table generator that fails breaks its own Tab*.v
            if getattr(mod, "USES_TRANSLATOR", False) or "generate() failed" in str(u) or "generated file name" in str(u):
                problems.append({"kind": "translator", "what": "source outside the translated subset: %s" % u})
            else:
                info["translator_note"] = "address-object translator (not used by this property): %s" % u
        except Exception as e:
            if getattr(mod, "USES_TRANSLATOR", False):
                problems.append({"kind": "translator", "what": "translator failed: %s: %s" % (type(e).__name__, e)})
            else:
                info["translator_note"] = "address-object translator (not used by this property) failed: %s: %s" % (type(e).__name__, e)
        info["translator"] = gen_status

        # ---- 2. models (no proofs inside): needed by the correspondence
        model_ok = True
        try:
            common.make(mod.MODEL_TARGETS)
        except common.BuildError as b:
            model_ok = False
            problems.append({"kind": "model-build", "what": "model file %s does not compile" % b.target, "log": b.log[-3000:]})

        # ---- 3. proofs: the property file is rebuilt on every run (Print Assumptions is re-printed)
        obligations = []
        for f in mod.OBLIGATION_FILES:
            obligations += ["%s:%s" % (f, t) for t in common.count_theorems(f)]
        discharged = 0
        assumptions = {"closed": 0, "axioms": []}
        if a.replay is None:
            try:
                out = common.make([mod.PROPS], force=[mod.PROPS])
                assumptions = common.parse_assumptions(out)
                discharged = len(obligations)
            except common.BuildError as b:
                problems.append({"kind": "proof", "what": "proof obligation file %s no longer checks" % b.target,
                                 "log": b.log[-3000:]})
                # count what still compiles
                for f in mod.OBLIGATION_FILES:
                    if os.path.exists(os.path.join(common.COQ, f[:-2] + ".vo")):
                        discharged += len(common.count_theorems(f))

        # thorough tier: re-check the compiled closure of the property file with the independent checker
        coqchk_summary = None
        if a.tier == "thorough" and a.replay is None and discharged == len(obligations):
            import subprocess
            modname_v = "CCP." + mod.PROPS[:-3].replace("/", ".")
            r = subprocess.run(["timeout", "1500", "coqchk", "-silent", "-o", "-Q", ".", "CCP", modname_v], cwd=common.COQ,
                               stdout=subprocess.PIPE, stderr=subprocess.STDOUT, text=True)
            txt = "\n".join(l for l in r.stdout.splitlines() if common.NOISE not in l)
            if r.returncode != 0:
                problems.append({"kind": "coqchk", "what": "coqchk rejected the compiled closure of %s" % mod.PROPS, "log": txt[-2000:]})
            else:
                import re as _re
                m = _re.search(r"\* Axioms:(.*?)\* Constants/Inductives relying on type-in-type", txt, flags=_re.S)
                coqchk_summary = "coqchk -o on %s: axioms: %s" % (modname_v, " ".join((m.group(1) if m else "?").split()) or "<none>")
        outer.close()

        # ---- 4. fingerprints of the anchored functions: a change escalates exploration, never alarms
        fp_now = common.fingerprints(mod.ANCHORS)
        fp_base = common.load_json(os.path.join(common.ROOT, "fingerprints.json"), {}).get(pid, {})
        changed = sorted(k for k in fp_now if fp_base.get(k) not in (None, fp_now[k]))
        escalate = bool(changed) or bool(problems)
        info["fingerprints_changed"] = changed

        # ---- 5. correspondence streams
        kf = [k for k in common.load_json(os.path.join(common.ROOT, "known_findings.json"), {"findings": []})["findings"]
              if k.get("property") == pid and k.get("status") == "known"]
        cov_streams = []
        total_eval = 0
        nontrivial = set()
        samples = []
        rng = random.Random(seed)
        replay_case = None
        if a.replay:
            replay_case = json.load(open(a.replay))
        if model_ok:
            import ciscoconfparse2  # noqa: F401  (imported before forking the workers)
            # a ProcessPoolExecutor, not mp.Pool: when a worker process dies (killed, out of memory) the map raises
            # BrokenProcessPool instead of waiting for ever
            pool = cf.ProcessPoolExecutor(common.JOBS, mp_context=mp.get_context("fork"), initializer=common.pool_init)
            try:
                for st in mod.STREAMS:
                    if replay_case is not None:
                        if replay_case.get("stream") != st.name:
                            continue
                        cases = [replay_case["case"]]
                    else:
                        corpus = []
                        cdir = os.path.join(common.ROOT, "corpus", pid)
                        for p in sorted(os.listdir(cdir)) if os.path.isdir(cdir) else []:
                            j = common.load_json(os.path.join(cdir, p), None)
                            if j and j.get("stream") == st.name:
                                corpus.append(j["case"])
                        for k in kf:
                            if k.get("stream") == st.name and "case" in k:
                                corpus.append(k["case"])
                        cases = corpus + st.gen(random.Random(rng.random()), a.tier, escalate)
                    ts = time.time()
                    try:
                        obs = list(pool.map(_run_one, [(modname, st.name, c) for c in cases], chunksize=max(1, len(cases) // (common.JOBS * 8))))
                    except cf.process.BrokenProcessPool:
                        problems.append({"kind": "driver", "what": "a worker process running the implementation on stream %s died (killed / out of memory); the stream was not evaluated" % st.name})
                        pool = cf.ProcessPoolExecutor(common.JOBS, mp_context=mp.get_context("fork"), initializer=common.pool_init)
                        continue
                    t_impl = time.time() - ts
                    derr = [o for o in obs if isinstance(o, dict) and "__driver_error__" in o]
                    if derr:
                        problems.append({"kind": "driver", "what": "implementation driver of stream %s failed: %s" % (st.name, derr[0]["__driver_error__"])})
                        continue
                    lits = [st.lit(c, o) for c, o in zip(cases, obs)]
                    ts = time.time()
                    bad, err, shown = common.coq_eval(work, "%s_%s" % (pid, st.name), st.preamble, st.ctype, lits,
                                                      st.agree, shard=st.shard, show=st.show)
                    t_coq = time.time() - ts
                    if err:
                        problems.append({"kind": "correspondence", "what": "correspondence shard of stream %s could not be evaluated" % st.name, "log": err[-3000:]})
                    nt = 0
                    if st.nontrivial:
                        for c, o in zip(cases, obs):
                            k = st.nontrivial(c, o)
                            if k is not None:
                                nontrivial.add((st.name, k))
                                nt += 1
                    total_eval += len(cases)
                    for i in (0, len(cases) // 2, len(cases) - 1):
                        if 0 <= i < len(cases):
                            samples.append({"stream": st.name, **st.describe(cases[i], obs[i])})
                    cov_streams.append({"stream": st.name, "cases": len(cases), "disagreements": len(bad),
                                        "impl_s": round(t_impl, 2), "coq_s": round(t_coq, 2), "rule": st.rule})
                    seen_known = set()
                    for i in bad:
                        fid = st.known(cases[i], obs[i], kf) if st.known else None
                        if fid:
                            if fid not in seen_known:
                                seen_known.add(fid)
                                what = [k for k in kf if k["id"] == fid][0]["what"]
                                known_lines.append("KNOWN-FINDING: property=%s %s %s" % (pid, fid, what))
                            continue
                        violations.append({"stream": st.name, "case": cases[i], "observed": obs[i],
                                           "model": shown.get(i), "detail": st.describe(cases[i], obs[i])})
            finally:
                pool.shutdown(wait=True, cancel_futures=True)

        # ---- 5b. auxiliary differential checks (clauses decided by test only; see level_note)
        aux_info = None
        if hasattr(mod, "aux") and replay_case is None:
            aux_info = mod.aux(random.Random(seed + 1), a.tier, escalate)
            for f in aux_info.pop("failures", []):
                fid = f.pop("known", None)
                if fid and any(k["id"] == fid for k in kf):
                    what = [k for k in kf if k["id"] == fid][0]["what"]
                    line = "KNOWN-FINDING: property=%s %s %s" % (pid, fid, what)
                    if line not in known_lines:
                        known_lines.append(line)
                    continue
                violations.append({"stream": "aux", **f})
            total_eval += aux_info.get("evaluations", 0)

        # ---- 6. verdict
        for l in known_lines:
            print(l)
        rc = 0
        vio_lines = []
        if violations:
            rc = 1
            # minimal first
            violations.sort(key=lambda v: len(json.dumps(v.get("case", v), default=str)))
            path = common.write_replay(pid, {"property": pid, "stream": violations[0]["stream"],
                                             "case": violations[0].get("case"), "observed": violations[0].get("observed"),
                                             "model": violations[0].get("model"), "detail": violations[0].get("detail"),
                                             "more": violations[1:6], "obligations_broken": problems})
            vio_lines.append("VIOLATION property=%s replay=%s" % (pid, path))
        elif problems:
            rc = 1
            path = common.write_replay(pid, {"property": pid, "no_failing_input_found": True,
                                             "broken": problems,
                                             "explored": cov_streams})
            vio_lines.append("VIOLATION property=%s replay=%s no-failing-input-found" % (pid, path))
        for l in vio_lines:
            print(l)
        if a.replay:
            print("replay: %s" % ("still fails" if rc else "no longer fails"))

        # ---- 7. evidence
        if a.replay is None:
            tb = list(mod.TRUSTED)
            tb.append("Print Assumptions on %d theorems: %d closed under the global context; axioms: %s" % (
                len(common.count_theorems(mod.PROPS[:-1])), assumptions["closed"], assumptions["axioms"] or "none"))
            if coqchk_summary:
                tb.append(coqchk_summary)
            cov = {
                "obligations": len(obligations), "discharged": discharged,
                "checker_cmd": "cd /verif/coq && make %s   (coqc 8.16.1, full .vo build; Props file rebuilt on every run)" % mod.PROPS,
                "trusted_base": tb,
                "evaluations": total_eval, "distinct_nontrivial": len(nontrivial),
                "rule": mod.RULE, "samples": samples[:12], "exhaustive": bool(getattr(mod, "EXHAUSTIVE", {}).get(a.tier)),
                "streams": cov_streams, "translator": gen_status, "fingerprints_changed": changed,
                "escalated": escalate, "known_findings_seen": known_lines, "problems": problems,
                "aux": aux_info, "theorems": [t.split(":")[1] for t in obligations if t.startswith("Props/")],
            }
            ev = {"property_id": pid, "tier": a.tier, "seed": seed, "level": mod.LEVEL, "coverage": cov,
                  "assumptions": list(mod.ASSUMPTIONS), "wall_s": round(time.time() - t0, 2), "violations": len(violations) + (1 if (problems and not violations) else 0)}
            common.write_evidence(pid, ev)
        print("%s %s: %d obligations (%d discharged), %d cases, %d nontrivial, %d violations, %d broken obligations/ties, %.1fs" % (
            pid, a.tier, len(obligations), discharged, total_eval, len(nontrivial), len(violations), len(problems), time.time() - t0))
        return rc
    finally:
        shutil.rmtree(work, ignore_errors=True)


if __name__ == "__main__":
    try:
        sys.exit(main())
    except SystemExit:
        raise
    except BaseException:
        traceback.print_exc()
        pid = sys.argv[1].upper() if len(sys.argv) > 1 else "?"
        path = common.write_replay(pid, {"property": pid, "no_failing_input_found": True,
                                         "broken": [{"kind": "harness", "what": traceback.format_exc()[-3000:]}]})
        print("VIOLATION property=%s replay=%s no-failing-input-found" % (pid, path))
        sys.exit(1)
