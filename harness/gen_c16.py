"""Tables for C16, read from the INSTALLED `macaddress` package on every run -> coq/gen/TabC16.v.

The MACObj / EUI64Obj classes of ciscoconfparse2 subclass macaddress.EUI48 / EUI64; parsing and the
canonical string are entirely driven by the class attributes `formats`, `size` and the module
constant `_HEX_DIGITS`.  If anything cannot be read the generated file refers to an undefined
identifier, so that only C16's model build fails (and says why) instead of the whole harness."""


def _strlit(s):
    return "[" + "; ".join(str(ord(c)) for c in s) + "]%N" if s else "[]"


def _cmt(x):
    """text that is safe inside a Coq comment (no string quote, no comment brackets)"""
    return repr(x).replace('"', "<dq>").replace("*)", "* )").replace("(*", "( *")


def generate():
    try:
        import macaddress
        f48 = [str(x) for x in macaddress.EUI48.formats]
        f64 = [str(x) for x in macaddress.EUI64.formats]
        s48, s64 = int(macaddress.EUI48.size), int(macaddress.EUI64.size)
        hexd = str(macaddress._HEX_DIGITS)
        ver = str(getattr(macaddress, "__version__", "?"))
        body = [
            "(* GENERATED on every run by harness/gen_c16.py from the installed macaddress %s -- do not edit *)" % _cmt(ver),
            "From Coq Require Import NArith List.",
            "Import ListNotations.",
            "Definition tab_hex_digits : list N := %s.   (* macaddress._HEX_DIGITS = %s *)" % (_strlit(hexd), _cmt(hexd)),
            "Definition tab_eui48_size : N := %d%%N." % s48,
            "Definition tab_eui64_size : N := %d%%N." % s64,
            "Definition tab_eui48_formats : list (list N) := [%s].   (* %s *)" % ("; ".join(_strlit(x) for x in f48), _cmt(f48)),
            "Definition tab_eui64_formats : list (list N) := [%s].   (* %s *)" % ("; ".join(_strlit(x) for x in f64), _cmt(f64)),
        ]
        return {"TabC16.v": "\n".join(body) + "\n"}
    except Exception as e:  # fail closed, but only for C16
        return {"TabC16.v": "(* harness/gen_c16.py could not read the macaddress tables: %s: %s *)\n"
                            "Definition tab_hex_digits := macaddress_tables_could_not_be_read.\n" % (type(e).__name__, _cmt(str(e)))}


if __name__ == "__main__":
    print(generate()["TabC16.v"])
