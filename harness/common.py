"""Shared machinery of ./check: building the Coq project, evaluating correspondence
shards with vm_compute, evidence, known findings, violation reporting."""
import ast
import fcntl
import glob
import hashlib
import json
import os
import re
import shutil
import subprocess
import sys
import tempfile
import time
from concurrent.futures import ThreadPoolExecutor

ROOT = os.path.dirname(os.path.dirname(os.path.abspath(__file__)))
COQ = os.path.join(ROOT, "coq")
REPO = os.environ.get("VERIF_REPO", "/repo")
JOBS = int(os.environ.get("VERIF_JOBS", "16"))
NOISE = "conda.cli.condarc"


def setup_impl():
    """Make the implementation importable from /repo's working tree, silence loguru."""
    if REPO not in sys.path:
        sys.path.insert(0, REPO)
    os.environ.setdefault("CISCOCONFPARSE2_VERIF", "1")
    try:
        from loguru import logger
        logger.remove()
    except Exception:
        pass


def pool_init():
    setup_impl()
    import ciscoconfparse2  # noqa: F401
    from loguru import logger
    logger.remove()


def exn_name(e):
    """Map a Python exception to the model's enum (Lib/Res.v)."""
    n = type(e).__name__
    table = {
        "IndexError": "E_IndexError", "ValueError": "E_ValueError", "TypeError": "E_TypeError",
        "AddressValueError": "E_AddressValueError", "NetmaskValueError": "E_ValueError",
        "RequirementFailure": "E_RequirementFailure", "NotImplementedError": "E_NotImplementedError",
        "InvalidParameters": "E_InvalidParameters", "KeyError": "E_KeyError",
        "AttributeError": "E_AttributeError", "ParseException": "E_ParseException",
        "DuplicateMember": "E_DuplicateMember", "MismatchedType": "E_MismatchedType",
        "AssertionError": "E_AssertionError",
    }
    return table.get(n, "E_Other")


# --------------------------------------------------------------------------- Gallina literals
def zlit(n):
    """Z literal; hexadecimal for large values (Coq's decimal number parser is slow on them)."""
    if n < 0:
        return "(-%s)" % zlit(-n)
    return "%d" % n if n < (1 << 31) else hex(n)


def blit(b):
    return "true" if b else "false"


def listlit(items):
    return "[" + "; ".join(items) + "]"


def strlit(s):
    """Python str -> list N of code points"""
    return "[" + "; ".join(str(ord(c)) for c in s) + "]%N" if s else "[]"


def optlit(x, f):
    return "None" if x is None else "(Some %s)" % f(x)


# --------------------------------------------------------------------------- building
class BuildError(Exception):
    def __init__(self, target, log):
        super().__init__(target)
        self.target, self.log = target, log


def _lock():
    f = open(os.path.join(COQ, ".lock"), "w")
    fcntl.flock(f, fcntl.LOCK_EX)
    return f


def refresh_makefile():
    """_CoqProject lists every .v under coq/; regenerate the Makefile when the set changes."""
    files = sorted(os.path.relpath(p, COQ) for p in glob.glob(os.path.join(COQ, "*", "*.v")))
    text = "-Q . CCP\n-arg -w -arg -all\n" + "\n".join(files) + "\n"
    cp = os.path.join(COQ, "_CoqProject")
    old = open(cp).read() if os.path.exists(cp) else None
    if old != text or not os.path.exists(os.path.join(COQ, "Makefile")):
        with open(cp, "w") as f:
            f.write(text)
        subprocess.run(["coq_makefile", "-f", "_CoqProject", "-o", "Makefile"], cwd=COQ, check=True,
                       stdout=subprocess.DEVNULL, stderr=subprocess.DEVNULL)


def make(targets, timeout=1500, force=()):
    """make the given .vo targets; returns stdout.  Raises BuildError(target, log)."""
    lock = _lock()
    try:
        refresh_makefile()
        for f in force:
            for ext in (".vo", ".glob", ".vok", ".vos"):
                p = os.path.join(COQ, f[:-3] + ext) if f.endswith(".vo") else None
                if p and os.path.exists(p):
                    os.remove(p)
        cmd = ["timeout", str(timeout), "make", "-j%d" % JOBS, "-k"] + list(targets)
        r = subprocess.run(cmd, cwd=COQ, stdout=subprocess.PIPE, stderr=subprocess.STDOUT, text=True)
        out = "\n".join(l for l in r.stdout.splitlines() if NOISE not in l)
        if r.returncode != 0:
            m = re.search(r'File "\./([^"]+)", line (\d+)', out)
            raise BuildError(m.group(1) if m else "?", out[-6000:])
        return out
    finally:
        lock.close()


def parse_assumptions(build_out):
    """Print Assumptions output -> dict(theorem -> 'closed' | [axioms])."""
    res = {}
    # coqc prints "Closed under the global context" or "Axioms:\n name : type ..." after each Print Assumptions
    closed = len(re.findall(r"Closed under the global context", build_out))
    axioms = []
    for m in re.finditer(r"Axioms:\n((?:.+\n?)+?)(?=\n[A-Z]|\Z)", build_out):
        for line in m.group(1).splitlines():
            mm = re.match(r"^([A-Za-z_][\w.']*)\s*:", line)
            if mm:
                axioms.append(mm.group(1))
    res["closed"] = closed
    res["axioms"] = sorted(set(axioms))
    return res


def count_theorems(vfile):
    s = open(os.path.join(COQ, vfile)).read()
    return re.findall(r"^(?:Theorem|Lemma)\s+([\w']+)", s, flags=re.M)


# --------------------------------------------------------------------------- correspondence evaluation
def coq_eval(work, name, preamble, ctype, literals, agree, shard=250, timeout=900, show=None):
    """Evaluate `agree : ctype -> bool` on every literal with vm_compute, sharded over JOBS
    coqc processes.  Returns (bad_indices, error_text_or_None, shown: dict index->text)."""
    n = len(literals)
    shards = [(k, literals[k:k + shard]) for k in range(0, n, shard)]
    files = []
    for si, (base, lits) in enumerate(shards):
        path = os.path.join(work, "%s_%d.v" % (name, si))
        with open(path, "w") as f:
            f.write(preamble + "\n")
            f.write("Definition cases : list (nat * (%s)) := [\n" % ctype)
            f.write(";\n".join("(%d%%nat, %s)" % (base + i, l) for i, l in enumerate(lits)))
            f.write("\n].\n")
            f.write("Definition bad := map fst (filter (fun c => negb (%s (snd c))) cases).\n" % agree)
            f.write("Eval vm_compute in bad.\n")
        files.append(path)

    def run(path):
        r = subprocess.run(["timeout", str(timeout), "coqc", "-Q", COQ, "CCP", "-w", "none", path],
                           cwd=work, stdout=subprocess.PIPE, stderr=subprocess.STDOUT, text=True)
        return path, r.returncode, r.stdout

    bad, err = [], None
    with ThreadPoolExecutor(max_workers=JOBS) as ex:
        for path, rc, out in ex.map(run, files):
            out = "\n".join(l for l in out.splitlines() if NOISE not in l)
            if rc != 0:
                err = (err or "") + "coqc failed on %s (rc=%d):\n%s\n" % (os.path.basename(path), rc, out[-3000:])
                continue
            m = re.search(r"=\s*\[(.*?)\]\s*:\s*list nat", out, flags=re.S)
            if not m:
                err = (err or "") + "unparsable coqc output for %s:\n%s\n" % (os.path.basename(path), out[-2000:])
                continue
            body = m.group(1).strip()
            if body:
                bad += [int(x.replace("%nat", "").strip()) for x in body.split(";")]
    shown = {}
    if show and bad:
        path = os.path.join(work, "%s_show.v" % name)
        with open(path, "w") as f:
            f.write(preamble + "\n")
            for i in sorted(bad, key=lambda k: len(literals[k]))[:8]:
                f.write("Eval vm_compute in (%d%%nat, %s (%s)).\n" % (i, show, literals[i]))
        _, rc, out = run(path)
        out = "\n".join(l for l in out.splitlines() if NOISE not in l)
        for m in re.finditer(r"=\s*\((\d+)%?n?a?t?,\s*(.*?)\)\s*:\s", out, flags=re.S):
            shown[int(m.group(1))] = " ".join(m.group(2).split())[:2000]
    return sorted(bad), err, shown


# --------------------------------------------------------------------------- fingerprints
def _norm_dump(node):
    for n in ast.walk(node):
        for a in ("lineno", "col_offset", "end_lineno", "end_col_offset"):
            if hasattr(n, a):
                setattr(n, a, 0)
    # drop docstrings
    for n in ast.walk(node):
        body = getattr(n, "body", None)
        if isinstance(body, list) and body and isinstance(body[0], ast.Expr) and isinstance(getattr(body[0], "value", None), ast.Constant) and isinstance(body[0].value.value, str):
            n.body = body[1:] or [ast.Pass()]
    return ast.dump(node)


def fingerprints(anchors):
    """anchors: list of (relative file, 'Class.method' or 'function').  Returns dict name->sha1."""
    out = {}
    cache = {}
    for rel, qual in anchors:
        path = os.path.join(REPO, rel)
        if path not in cache:
            try:
                cache[path] = ast.parse(open(path).read())
            except Exception:
                cache[path] = None
        tree = cache[path]
        key = rel + "::" + qual
        if tree is None:
            out[key] = "unparsable"
            continue
        parts = qual.split(".")
        nodes = [tree]
        for i, p in enumerate(parts):
            nxt = []
            for n in nodes:
                for c in getattr(n, "body", []):
                    if isinstance(c, (ast.FunctionDef, ast.ClassDef)) and c.name == p:
                        nxt.append(c)
            nodes = nxt
        if not nodes:
            out[key] = "missing"
        else:
            out[key] = hashlib.sha1("|".join(_norm_dump(n) for n in nodes).encode()).hexdigest()[:16]
    return out


def load_json(path, default):
    try:
        return json.load(open(path))
    except Exception:
        return default


# --------------------------------------------------------------------------- reporting
def write_replay(pid, payload):
    os.makedirs(os.path.join(ROOT, "replays"), exist_ok=True)
    h = hashlib.sha1(json.dumps(payload, sort_keys=True, default=str).encode()).hexdigest()[:12]
    path = os.path.join(ROOT, "replays", "%s-%s.json" % (pid, h))
    with open(path, "w") as f:
        json.dump(payload, f, indent=1, default=str)
    return path


def write_evidence(pid, ev):
    # evidence/ only ever describes runs against /repo itself; runs against a scratch copy (VERIF_REPO, used to
    # try seeded regressions) are recorded next to the replays instead
    d = os.path.join(ROOT, "evidence") if os.path.realpath(REPO) == "/repo" else os.path.join(ROOT, "replays", "evidence_scratch")
    os.makedirs(d, exist_ok=True)
    with open(os.path.join(d, "%s.json" % pid), "w") as f:
        json.dump(ev, f, indent=1, default=str)
